/-
  Driver side of the differential tie between Algo/FC/Batch.lean and the real flat-combining containers
  (harness/pure/fcbatch.cpp).  One input line = one combiner session:

      <kind> n=<nCombinePassCount> route=<ignored> init=[v,..] batch=[item,..]

  and one output line, in the format the C++ driver prints to the right of `->`:

      res=[r,..] final=[v,..] coll=<number of collided pairs>

  `D` / `E` items are records that the kernel iterator and `combining_pass` skip (already marked done / empty
  record); in the model they are slots that are marked from the start.

  What is evaluated are the definitions of Algo/FC/Batch.lean the theorems of Props/C10 and Props/C23Batch are
  about: `elimPasses`, `elimPairs`, `applyAll` instantiated with `dequePart`/`dequeCollide`/`dequeApply`
  (resp. queue, stack), and `pqBatch`.  `*Session_fresh` below: on a batch without D/E items the evaluated
  function IS `dequeBatch` / `queueBatch` / `stackBatch`.
-/
import CdsVerif.Algo.FC.Batch
import CdsVerif.Driver.LinCheck
namespace CdsVerif.Driver
open CdsVerif.Algo.FC

/-! ### The functions evaluated -/

/-- A combiner session on a partly marked batch (`dequeBatch` with the marks as a parameter). -/
def dequeSession (n : Nat) (d : List Int) (sl : List (Slot DReq)) : List Int × List Resp :=
  applyAll dequeApply d (elimPasses dequePart (dequeCollide d.isEmpty) n sl)

def queueSession (n : Nat) (q : List Int) (sl : List (Slot QReq)) : List Int × List Resp :=
  applyAll queueApply q (elimPasses (queuePart q.isEmpty) queueCollide n sl)

def stackSession (n : Nat) (s : List Int) (sl : List (Slot SReq)) : List Int × List Resp :=
  applyAll stackApply s (elimPasses stackPart stackCollide n sl)

theorem dequeSession_fresh (n : Nat) (d : List Int) (rs : List DReq) :
    dequeSession n d (rs.map (fun r => (r, none))) = dequeBatch n d rs := rfl

theorem queueSession_fresh (n : Nat) (q : List Int) (rs : List QReq) :
    queueSession n q (rs.map (fun r => (r, none))) = queueBatch n q rs := rfl

theorem stackSession_fresh (n : Nat) (s : List Int) (rs : List SReq) :
    stackSession n s (rs.map (fun r => (r, none))) = stackBatch n s rs := rfl

/-- The pairs collided by `n` walks of `fc_process` (the library counts them in `m_nCollided`). -/
def collCount {Req : Type} (part : Req → Bool) (coll : Req → Req → Option (Resp × Resp)) : Nat → List (Slot Req) → Nat
  | 0, _ => 0
  | n + 1, sl => (elimPairs part coll sl).length + collCount part coll n (elimPass part coll sl)

/-! ### Text in, text out -/

inductive OpCls
  | push | pop | clear | empty

def renderResp (c : OpCls) (r : Resp) : String :=
  match c, r with
  | .push, [1] => "ok"
  | .clear, [] => "ok"
  | .pop, [0] => "empty"
  | .pop, [1, v] => s!"={v}"
  | .empty, [1] => "true"
  | .empty, [0] => "false"
  | _, _ => s!"?{r}"

def listText (l : List Int) : String :=
  "[" ++ ",".intercalate (l.map toString) ++ "]"

/-- `key=[a,b,c]` → `["a","b","c"]` -/
def bracketItems (key : String) (w : String) : Option (List String) :=
  match w.splitOn "[" with
  | [k, rest] =>
    if k ≠ key ++ "=" then none else
    match rest.splitOn "]" with
    | [body, ""] => some ((body.splitOn ",").filter (· ≠ ""))
    | _ => none
  | _ => none

/-- `tok` or `tok:v` -/
def splitItem (w : String) : Option (String × Int) :=
  match w.splitOn ":" with
  | [t] => some (t, 0)
  | [t, v] => v.toInt?.map (fun i => (t, i))
  | _ => none

/-- `none` = a record the combiner skips (D / E). -/
def parseItems {Req : Type} (mk : String → Int → Option Req) (ws : List String) : Option (List (Option Req)) :=
  ws.mapM (fun w =>
    if w = "D" ∨ w = "E" then some none
    else (splitItem w).bind (fun p => (mk p.1 p.2).map some))

/-- Per-item text: `-` for a skipped record, else `e:`/`a:` (marked by the walks / left for `fc_apply`) and the response. -/
def renderItems {Req : Type} (cls : Req → OpCls) :
    List (Option Req) → List (Slot Req) → List Resp → List String
  | none :: is, _ :: sl, _ :: rs => "-" :: renderItems cls is sl rs
  | some r :: is, (_, m) :: sl, a :: rs =>
    ((if m.isSome then "e:" else "a:") ++ renderResp (cls r) a) :: renderItems cls is sl rs
  | [], _, _ => []
  | _ :: is, _, _ => "?" :: renderItems cls is [] []

/-- Generic session: slots from the items (`dummy` fills the request of a skipped record; it is never looked at),
    `n` walks, then `applyAll`. -/
def sessionText {Req : Type} (part : Req → Bool) (coll : Req → Req → Option (Resp × Resp))
    (app : List Int → Req → List Int × Resp) (cls : Req → OpCls) (dummy : Req)
    (n : Nat) (d : List Int) (items : List (Option Req)) : String :=
  let sl0 : List (Slot Req) := items.map (fun i => match i with | some r => (r, none) | none => (dummy, some []))
  let slN := elimPasses part coll n sl0
  let fin := applyAll app d slN
  "res=[" ++ ",".intercalate (renderItems cls items slN fin.2) ++ "] final=" ++ listText fin.1 ++
    " coll=" ++ toString (collCount part coll n sl0)

def mkD (t : String) (v : Int) : Option DReq :=
  match t with
  | "pushF" => some ⟨.pushFront, v⟩
  | "pushFm" => some ⟨.pushFrontMove, v⟩
  | "pushB" => some ⟨.pushBack, v⟩
  | "pushBm" => some ⟨.pushBackMove, v⟩
  | "popF" => some ⟨.popFront, 0⟩
  | "popB" => some ⟨.popBack, 0⟩
  | "clear" => some ⟨.clear, 0⟩
  | _ => none

def clsD (r : DReq) : OpCls :=
  match r.kind with
  | .popFront | .popBack => .pop
  | .clear => .clear
  | _ => .push

def mkQ (t : String) (v : Int) : Option QReq :=
  match t with
  | "enq" => some ⟨.enq, v⟩
  | "enqm" => some ⟨.enqMove, v⟩
  | "deq" => some ⟨.deq, 0⟩
  | "clear" => some ⟨.clear, 0⟩
  | _ => none

def clsQ (r : QReq) : OpCls :=
  match r.kind with
  | .deq => .pop
  | .clear => .clear
  | _ => .push

def mkS (t : String) (v : Int) : Option SReq :=
  match t with
  | "push" => some ⟨.push, v⟩
  | "pushm" => some ⟨.pushMove, v⟩
  | "pop" => some ⟨.pop, 0⟩
  | "clear" => some ⟨.clear, 0⟩
  | "empty" => some ⟨.empty, 0⟩
  | _ => none

def clsS (r : SReq) : OpCls :=
  match r.kind with
  | .pop => .pop
  | .clear => .clear
  | .empty => .empty
  | _ => .push

def mkP (t : String) (v : Int) : Option PReq :=
  match t with
  | "push" => some ⟨.push, v⟩
  | "pushm" => some ⟨.pushMove, v⟩
  | "pop" => some ⟨.pop, 0⟩
  | "clear" => some ⟨.clear, 0⟩
  | _ => none

def clsP (r : PReq) : OpCls :=
  match r.kind with
  | .pop => .pop
  | .clear => .clear
  | _ => .push

/-- FCPriorityQueue: `pqBatch` on the requests that are not skipped; every one of them is finished by `fc_apply`. -/
def pqText (s : List Int) (items : List (Option PReq)) : String :=
  let fin := pqBatch s (items.filterMap id)
  let rec go : List (Option PReq) → List Resp → List String
    | [], _ => []
    | none :: is, rs => "-" :: go is rs
    | some r :: is, a :: rs => ("a:" ++ renderResp (clsP r) a) :: go is rs
    | some _ :: is, [] => "?" :: go is []
  "res=[" ++ ",".intercalate (go items fin.2) ++ "] final=" ++
    listText (fin.1.mergeSort (fun a b => decide (b ≤ a))) ++ " coll=0"

def fcBatchLine (line : String) : String :=
  match words line with
  | [kind, nW, _route, initW, batchW] =>
    match nW.splitOn "=", bracketItems "init" initW, bracketItems "batch" batchW with
    | ["n", nS], some initS, some batchS =>
      match nS.toNat?, initS.mapM (·.toInt?) with
      | some n, some init =>
        match kind with
        | "deque" =>
          match parseItems mkD batchS with
          | some items => sessionText dequePart (dequeCollide init.isEmpty) dequeApply clsD ⟨.clear, 0⟩ n init items
          | none => "bad-item"
        | "queue" =>
          match parseItems mkQ batchS with
          | some items => sessionText (queuePart init.isEmpty) queueCollide queueApply clsQ ⟨.clear, 0⟩ n init items
          | none => "bad-item"
        | "stack" =>
          match parseItems mkS batchS with
          | some items => sessionText stackPart stackCollide stackApply clsS ⟨.clear, 0⟩ n init items
          | none => "bad-item"
        | "pq" =>
          match parseItems mkP batchS with
          | some items => pqText init items
          | none => "bad-item"
        | _ => "bad-kind"
      | _, _ => "bad-number"
    | _, _, _ => "bad-field"
  | _ => "bad-line"

partial def fcBatchLoop (h : IO.FS.Stream) : IO Unit := do
  let line ← h.getLine
  if line.isEmpty then return ()
  if (words line).isEmpty then fcBatchLoop h
  else
    IO.println (fcBatchLine line)
    fcBatchLoop h

end CdsVerif.Driver

/-
  Atomic-step model of `cds::intrusive::MoirQueue` (cds/intrusive/moir_queue.h).  MoirQueue derives from MSQueue and
  overrides `do_dequeue` only (Doherty, Groves, Luchangco, Moir: "Formal verification of a practical lock-free queue
  algorithm"): a dequeuer does not look at `m_pTail` before it swings `m_pHead`; it reads `m_pTail` once, AFTER its
  successful CAS on `m_pHead`, and helps the lagging tail then.  `m_pHead` is not re-validated after
  `h->m_pNext` has been protected.  Consequence: `m_pHead` and `m_pTail` can CROSS — `m_pTail` may point to the
  node just dequeued, one node BEHIND `m_pHead`.

    MoirQueue(): m_pHead = m_pTail = &m_Dummy                           (MSQueue's constructor)

    enqueue( val ):                                                     (MSQueue::enqueue, unchanged)
        pNew = node of val
        while ( true ) {
            t = guard.protect( m_pTail )      -- gc::Guard::protect:
                                              --   pCur = load;                                           enqLd1
                                              --   do { pRet = pCur; hp := pCur; pCur = load } while ( pRet != pCur )   enqLd2
            pNext = t->m_pNext.load()                                   -- enqNext
            if ( pNext != nullptr ) {
                m_pTail.compare_exchange_weak( t, pNext )               -- enqHelp   (result ignored)
                continue;
            }
            tmp = nullptr
            if ( t->m_pNext.compare_exchange_strong( tmp, pNew ))       -- enqCas
                break;
            back-off                                                    -- (failure: restart the loop)
        }
        m_pTail.compare_exchange_strong( t, pNew )                      -- enqSwing  (result ignored)
        return true;

    do_dequeue():                                                       (MoirQueue::do_dequeue)
        while ( true ) {
            h = guards.protect( 0, m_pHead )  -- gc::GuardArray::protect:
                                              --   do { pRet = load; hp := pRet }                         deqLd1
                                              --   while ( pRet != load )                                 deqLd2
            pNext = guards.protect( 1, h->m_pNext )                     -- deqNx1, deqNx2 (same loop shape)
            if ( pNext == nullptr ) return false;                       --   (local; decided in the deqNx2 step)
            if ( m_pHead.compare_exchange_strong( h, pNext )) {         -- deqCas
                t = m_pTail.load()                                      -- deqTail
                if ( h == t )
                    m_pTail.compare_exchange_strong( t, pNext )         -- deqHelp   (result ignored)
                break;
            }
            back-off                                                    -- (failure: restart the loop)
        }
        return pNext (the value stored in node pNext)

  Memory model, event rendering and everything that is not modelled: exactly as in `Algo/MSQueue/Model.lean`
  (garbage-collected heap: node 0 is `m_Dummy`, client nodes are fresh and never reused — what the hazard pointers
  published by `protect` provide in the real code, an ASSUMPTION here; hazard-pointer stores, the disposer's
  `clear_links`, item counter, statistics and back-off are not modelled; `compare_exchange_weak` never fails
  spuriously).

  One `step` = one atomic operation on shared memory.  Events (the `A` lines of the harness trace):
      ld   head  n<a>               load of m_pHead, value read
      ld   tail  n<a>               load of m_pTail
      ld   n<a>  <ptr>              load of node a's m_pNext
      cas+ head  n<old> n<new>      successful CAS on m_pHead      (cas+ tail ... likewise)
      cas- head  n<seen> n<expected> failed CAS on m_pHead         (cas- tail ... likewise)
      cas+ n<a>  null n<new>        successful CAS on node a's m_pNext
      cas- n<a>  n<seen> null       failed CAS on node a's m_pNext
  where <ptr> is `null` or `n<id>`.
-/
import CdsVerif.Base.Machine
namespace CdsVerif.Algo.Moir
open CdsVerif.Machine CdsVerif.Spec

inductive PC
  | idle
  | enqLd1 (n : Nat)                         -- next: first load of protect( m_pTail )
  | enqLd2 (n : Nat) (p : Nat)               -- next: validating load of protect (p = value read before)
  | enqNext (n : Nat) (t : Nat)              -- next: pNext = t->m_pNext.load()
  | enqHelp (n : Nat) (t : Nat) (x : Nat)    -- next: CAS( m_pTail, t, pNext = x ); then restart
  | enqCas (n : Nat) (t : Nat)               -- next: CAS( t->m_pNext, null, pNew )
  | enqSwing (n : Nat) (t : Nat)             -- next: CAS( m_pTail, t, pNew ); then return [1]
  | deqLd1                                   -- next: first load of protect( m_pHead )
  | deqLd2 (p : Nat)                         -- next: validating load of protect( m_pHead )
  | deqNx1 (h : Nat)                         -- next: first load of protect( h->m_pNext )
  | deqNx2 (h : Nat) (p : Option Nat)        -- next: validating load of protect( h->m_pNext ); null confirmed: return [0]
  | deqCas (h : Nat) (x : Nat)               -- next: CAS( m_pHead, h, pNext = x )
  | deqTail (h : Nat) (x : Nat) (v : Int)    -- (head swung, result v fixed) next: t = m_pTail.load()
  | deqHelp (h : Nat) (x : Nat) (v : Int)    -- next: CAS( m_pTail, t = h, pNext = x ); then return [1, v]
  | done (r : GRet)
deriving DecidableEq, Repr

structure St where
  head : Nat                     -- m_pHead (never null)
  tail : Nat                     -- m_pTail (never null)
  next : Nat → Option Nat        -- m_pNext of every node
  val : Nat → Int                -- payload of every node
  cnt : Nat                      -- next fresh node
  pc : Tid → PC

/-- The dummy node `m_Dummy`. -/
def dummy : Nat := 0

def init : St := ⟨dummy, dummy, fun _ => none, fun _ => 0, 1, fun _ => .idle⟩

/-! ### Event rendering (the only place where events are built) -/

def ptr : Option Nat → String
  | none => "null"
  | some a => s!"n{a}"
def nloc (a : Nat) : String := s!"n{a}"
def headLoc : String := "head"
def tailLoc : String := "tail"

def evLd (loc : String) (v : Option Nat) : Ev := ⟨"ld", loc, ptr v, ""⟩
def evCasOk (loc : String) (old new : Option Nat) : Ev := ⟨"cas+", loc, ptr old, ptr new⟩
def evCasFail (loc : String) (seen expected : Option Nat) : Ev := ⟨"cas-", loc, ptr seen, ptr expected⟩

/-! ### Transitions -/

/-- `enq [v]`: the client supplies a fresh node carrying `v` (its `m_pNext` is null: `link_checker`).
    `deq []`. -/
def invoke (s : St) (t : Tid) (op : GOp) : Option St :=
  match s.pc t, op.name, op.args with
  | .idle, "enq", [v] =>
    some { s with val := upd s.val s.cnt v, cnt := s.cnt + 1, pc := upd s.pc t (.enqLd1 s.cnt) }
  | .idle, "deq", [] => some { s with pc := upd s.pc t .deqLd1 }
  | _, _, _ => none

def step (s : St) (t : Tid) : Option (St × Ev) :=
  match s.pc t with
  | .enqLd1 n => some ({ s with pc := upd s.pc t (.enqLd2 n s.tail) }, evLd tailLoc (some s.tail))
  | .enqLd2 n p =>
    if s.tail = p then
      some ({ s with pc := upd s.pc t (.enqNext n p) }, evLd tailLoc (some p))
    else
      some ({ s with pc := upd s.pc t (.enqLd2 n s.tail) }, evLd tailLoc (some s.tail))
  | .enqNext n a =>
    match s.next a with
    | none => some ({ s with pc := upd s.pc t (.enqCas n a) }, evLd (nloc a) none)
    | some x => some ({ s with pc := upd s.pc t (.enqHelp n a x) }, evLd (nloc a) (some x))
  | .enqHelp n a x =>
    if s.tail = a then
      some ({ s with tail := x, pc := upd s.pc t (.enqLd1 n) }, evCasOk tailLoc (some a) (some x))
    else
      some ({ s with pc := upd s.pc t (.enqLd1 n) }, evCasFail tailLoc (some s.tail) (some a))
  | .enqCas n a =>
    match s.next a with
    | none =>
      some ({ s with next := upd s.next a (some n), pc := upd s.pc t (.enqSwing n a) }, evCasOk (nloc a) none (some n))
    | some x => some ({ s with pc := upd s.pc t (.enqLd1 n) }, evCasFail (nloc a) (some x) none)
  | .enqSwing n a =>
    if s.tail = a then
      some ({ s with tail := n, pc := upd s.pc t (.done [1]) }, evCasOk tailLoc (some a) (some n))
    else
      some ({ s with pc := upd s.pc t (.done [1]) }, evCasFail tailLoc (some s.tail) (some a))
  | .deqLd1 => some ({ s with pc := upd s.pc t (.deqLd2 s.head) }, evLd headLoc (some s.head))
  | .deqLd2 p =>
    if s.head = p then
      some ({ s with pc := upd s.pc t (.deqNx1 p) }, evLd headLoc (some p))
    else
      some ({ s with pc := upd s.pc t .deqLd1 }, evLd headLoc (some s.head))
  | .deqNx1 h => some ({ s with pc := upd s.pc t (.deqNx2 h (s.next h)) }, evLd (nloc h) (s.next h))
  | .deqNx2 h p =>
    if s.next h = p then
      match p with
      | none => some ({ s with pc := upd s.pc t (.done [0]) }, evLd (nloc h) none)
      | some x => some ({ s with pc := upd s.pc t (.deqCas h x) }, evLd (nloc h) (some x))
    else
      some ({ s with pc := upd s.pc t (.deqNx1 h) }, evLd (nloc h) (s.next h))
  | .deqCas h x =>
    if s.head = h then
      some ({ s with head := x, pc := upd s.pc t (.deqTail h x (s.val x)) }, evCasOk headLoc (some h) (some x))
    else
      some ({ s with pc := upd s.pc t .deqLd1 }, evCasFail headLoc (some s.head) (some h))
  | .deqTail h x v =>
    if s.tail = h then
      some ({ s with pc := upd s.pc t (.deqHelp h x v) }, evLd tailLoc (some h))
    else
      some ({ s with pc := upd s.pc t (.done [1, v]) }, evLd tailLoc (some s.tail))
  | .deqHelp h x v =>
    if s.tail = h then
      some ({ s with tail := x, pc := upd s.pc t (.done [1, v]) }, evCasOk tailLoc (some h) (some x))
    else
      some ({ s with pc := upd s.pc t (.done [1, v]) }, evCasFail tailLoc (some s.tail) (some h))
  | _ => none

def result (s : St) (t : Tid) : Option (St × GRet) :=
  match s.pc t with
  | .done r => some ({ s with pc := upd s.pc t .idle }, r)
  | _ => none

def model : Model St := ⟨invoke, step, result⟩

end CdsVerif.Algo.Moir

/-
  C15 — the lock-free skip list (cds::intrusive::SkipListSet<HP>: insert, erase with functor, find with functor,
  contains), atomic-step model `Algo/SkipList/Model.lean` (towers of marked next pointers, `find_position` with
  helping, `insert_at_position` with `renew_insert_position`, `try_remove_at`, `find_fastpath` + slow path; tower
  heights from ANY generator, `c_nMaxHeight` a parameter, `Cfg.markTest`: the fast path with / without the test of the
  level-0 mark of the node it is about to report).
  Property theorems only; the invariant and the proofs live in `Algo/SkipList/{Inv,Eff,Upd,StepBase,StepTrav,StepMisc,
  StepCas,Reach,Lin,Level0}.lean`.

  PROVED for the REPAIRED code (`markTest = true`, /repo b95a3c3; what `cdsdriver replay skiplist` checks traces
  against), for ALL schedules, any number of threads, any keys, any tower heights, any `c_nMaxHeight ≥ 1`:
    * `C15_skiplist_linearizable` (+ `_complete_runs`, `_no_effect_pending`): every history is linearizable to the
      sequential map, in the form of `C13_michael_linearizable`.  Linearization points: the level-0 CAS (insert), the
      level-0 marking CAS (erase), the load that reads an UNMARKED word of an item with the key (key found; on the slow
      path it is tentative until `pPred->next(lvl)` is validated, and withdrawn otherwise — hindsight, as for
      MichaelList), the validated level-0 load of `pPred->next(0)` (key absent), and — new — a HELPED point: an erase
      that loses the race for the level-0 mark answers "not found" (`erase contention`) although the item may be
      unlinked and the key inserted again before the loser runs; it is linearized right behind the winner's marking
      CAS, in the same step (`Lin.helped`).
    * `C15_skiplist_invariant` and its readings: level 0 is a chain from the head, STRICTLY sorted (no key twice); every
      tower word on every level holds null or a published item (linked on level 0 or marked there) that is tall enough;
      an item marked on level 0 is marked on all its upper levels; erase once (`C15_skiplist_mark_once`).
  PROVED for the code BEFORE the repair (`markTest := false`): it is NOT linearizable
  (`C15_skiplist_not_linearizable_without_mark_test`): a thread that loses the erase race and then looks the key up
  gets `erase k → 0` followed by `find k → found`; the unrepaired tree produced exactly this history (harness client
  `tree`, variant `iskipset_hp_named`, seed 5, case 1526, `--keys 2`).

  NOT proved (checked on every state of every replayed trace by `SkipList.invB`, and by `./check C18` on quiescent
  snapshots): that every UPPER level is sorted and a sub-list of the level below.  Linearizability does not need it
  (a traversal compares keys itself before it advances, so the upper levels may point at any published item); a proof
  needs the top-down unlinking discipline of the counter `m_nUnlink`, which the invariant here does not track.

  Assumption of the model: garbage-collected heap (a node is not reused while a thread may hold a pointer to it) — what
  the hazard pointers provide (C01/C02).  Tie to the real code: `cdsdriver replay skiplist` on traces of the variant
  `iskipset_hp_named` (`fastmark=0` in the header selects the machine without the mark test).
-/
import CdsVerif.Algo.SkipList.Abs
import CdsVerif.Algo.SkipList.Lin
import CdsVerif.Algo.SkipList.Frozen
import CdsVerif.Algo.SkipList.Level0
namespace CdsVerif.Props.C15SkipList
open CdsVerif.Machine CdsVerif.Lin CdsVerif.Spec CdsVerif.Algo

def steps (t : Tid) (n : Nat) : List (Tid × Act) := List.replicate n (t, .step)
def ins (k v : Int) : GOp := ⟨"insert", [k, v]⟩
def era (k : Int) : GOp := ⟨"erase", [k]⟩
def fnd (k : Int) : GOp := ⟨"find", [k]⟩
def con (k : Int) : GOp := ⟨"contains", [k]⟩

/-- The configuration of the harness (`c_nMaxHeight = 3`, `c_nMinHeight = 5`), all towers of height 1, the fast path
    WITHOUT the mark test (the code before the repair b95a3c3). -/
def cfg1 : SkipList.Cfg := { maxH := 3, ht := fun _ => 1, markTest := false }

/-! ### The counterexample -/

/-- Thread 0 inserts key 1.  Threads 1 and 2 both erase key 1: thread 1 locates the node (`find_position`), then
    thread 2 locates it and marks its level 0 (`cas+ n1.0 null null|1`) and is delayed before unlinking it.  Thread 1's
    marking CAS fails on the marked word (`cas- n1.0 null|1 null`): erase contention, it answers 0.  Thread 1 then looks
    the key up: the fast path reads `h.0 = n1.0`, the keys are equal, it answers `[1, 10]`.  Thread 2 finally unlinks
    the node and answers `[1, 10]`. -/
def badSched : List (Tid × Act) :=
  [(0, .invoke (ins 1 10))] ++ steps 0 9 ++ [(0, .ret), (1, .invoke (era 1))] ++ steps 1 8 ++
  [(2, .invoke (era 1))] ++ steps 2 10 ++ steps 1 2 ++ [(1, .ret), (1, .invoke (fnd 1))] ++ steps 1 11 ++ [(1, .ret)] ++
  steps 2 3 ++ [(2, .ret)]

def badHist : List (OpRec GOp GRet) :=
  [⟨0, ins 1 10, [1], 0, 10⟩, ⟨1, era 1, [0], 11, 33⟩, ⟨1, fnd 1, [1, 10], 34, 46⟩, ⟨2, era 1, [1, 10], 20, 50⟩]

/-- The run exists, every thread is idle at its end, and its history is `badHist`. -/
theorem C15_skiplist_bad_run :
    ((SkipList.model cfg1).run (SkipList.init cfg1) badSched).map
      (fun r => (SkipList.historyOf r.2, r.1.pc 0, r.1.pc 1, r.1.pc 2)) = some (badHist, .idle, .idle, .idle) := by
  decide +kernel

/-- The interesting part of that run, as harness trace lines. -/
example : ((SkipList.model cfg1).run (SkipList.init cfg1) badSched).map (fun r => (r.2.drop 28).take 18) =
    some [(2, .ev ⟨"ld", "h.0", "n1.0", ""⟩),             -- thread 2: validation of pPrev[0]
          (2, .ev ⟨"ld", "n1.0", "null", ""⟩),            -- try_remove_at: p = pDel->next(0)
          (2, .ev ⟨"cas+", "n1.0", "null", "null|1"⟩),    -- T 2 A cas+ n1.0 null null|1     (logical deletion)
          (1, .ev ⟨"ld", "n1.0", "null|1", ""⟩),
          (1, .ev ⟨"cas-", "n1.0", "null|1", "null"⟩),    -- T 1 A cas- n1.0 null|1 null     (erase contention)
          (1, .ret [0]),                                   -- T 1 R [0]                       erase 1 -> not found
          (1, .call (fnd 1)),
          (1, .ev ⟨"ld", "hgt", "5", ""⟩),
          (1, .ev ⟨"ld", "h.4", "null", ""⟩),
          (1, .ev ⟨"ld", "h.4", "null", ""⟩),
          (1, .ev ⟨"ld", "h.3", "null", ""⟩),
          (1, .ev ⟨"ld", "h.3", "null", ""⟩),
          (1, .ev ⟨"ld", "h.2", "null", ""⟩),
          (1, .ev ⟨"ld", "h.2", "null", ""⟩),
          (1, .ev ⟨"ld", "h.1", "null", ""⟩),
          (1, .ev ⟨"ld", "h.1", "null", ""⟩),
          (1, .ev ⟨"ld", "h.0", "n1.0", ""⟩),             -- fast path: pCur = n1, key equal — its mark is not looked at
          (1, .ev ⟨"ld", "h.0", "n1.0", ""⟩)] := by decide +kernel

/-- `badHist` is not linearizable to the sequential set: thread 1's `erase 1 → 0` precedes its own `find 1 → [1, 10]`
    in real time, and the only insert of key 1 precedes both. -/
theorem C15_badHist_not_linearizable : ¬ Linearizable map badHist := by
  intro hlin
  have := (linCheck_iff map badHist (by decide)).mpr hlin
  revert this
  decide +kernel

/-- **Without the mark test in `find_fastpath` the skip list is not linearizable.**  There is a run of the machine, for the harness configuration, at whose end
    every thread that took part is idle (every invoked operation has returned) and whose history is not linearizable
    to `Spec.map`: the analogue of `C13_michael_linearizable_complete_runs` fails. -/
theorem C15_skiplist_not_linearizable_without_mark_test :
    ¬ ∀ (sched : List (Tid × Act)) (s : SkipList.St) (os : List (Tid × Obs)),
        (SkipList.model cfg1).run (SkipList.init cfg1) sched = some (s, os) →
        (∀ t, t ∈ sched.map (·.1) → s.pc t = .idle) →
        Linearizable map (SkipList.historyOf os) := by
  intro h
  cases hr : (SkipList.model cfg1).run (SkipList.init cfg1) badSched with
  | none =>
    have := C15_skiplist_bad_run
    rw [hr] at this; simp at this
  | some p =>
    obtain ⟨s, os⟩ := p
    have hb := C15_skiplist_bad_run
    rw [hr] at hb
    simp only [Option.map_some, Option.some.injEq, Prod.mk.injEq] at hb
    have hthr : ∀ t, t ∈ badSched.map (·.1) → t = 0 ∨ t = 1 ∨ t = 2 := by decide +kernel
    have hidle : ∀ t, t ∈ badSched.map (·.1) → s.pc t = .idle := by
      intro t ht
      rcases hthr t ht with e | e | e <;> subst e
      · exact hb.2.1
      · exact hb.2.2.1
      · exact hb.2.2.2
    have := h badSched s os hr hidle
    rw [hb.1] at this
    exact C15_badHist_not_linearizable this

/-! ### The same schedule on the repaired code -/

/-- The harness configuration with the repaired fast path (`markTest := true` is the default). -/
def cfgR : SkipList.Cfg := { maxH := 3, ht := fun _ => 1 }

/-- `badSched` up to thread 1's `find 1`, then the repaired code: the fast path reaches `n1`, loads `n1.0`, sees the
    mark and falls back to the slow path (20 more steps), which helps to unlink `n1` and answers "not found". -/
def goodSched : List (Tid × Act) :=
  [(0, .invoke (ins 1 10))] ++ steps 0 9 ++ [(0, .ret), (1, .invoke (era 1))] ++ steps 1 8 ++
  [(2, .invoke (era 1))] ++ steps 2 10 ++ steps 1 2 ++ [(1, .ret), (1, .invoke (fnd 1))] ++ steps 1 31 ++ [(1, .ret)] ++
  steps 2 8 ++ [(2, .ret)]

set_option synthInstance.maxSize 2000 in
/-- On the repaired machine thread 1 answers `find 1 → 0`, the history is linearizable, the list is empty and well
    formed at the end. -/
theorem C15_repaired_run :
    ((SkipList.model cfgR).run (SkipList.init cfgR) goodSched).map
      (fun r => (SkipList.historyOf r.2, linCheck map (SkipList.historyOf r.2), SkipList.wellFormed r.1 3,
        SkipList.levelNodes r.1 0)) =
    some ([⟨0, ins 1 10, [1], 0, 10⟩, ⟨1, era 1, [0], 11, 33⟩, ⟨1, fnd 1, [0], 34, 66⟩, ⟨2, era 1, [1, 10], 20, 75⟩],
      true, true, []) := by
  decide +kernel

/-- The fast path of that run: the new load of `n1.0`, then the slow path with helping. -/
example : ((SkipList.model cfgR).run (SkipList.init cfgR) goodSched).map (fun r => (r.2.drop 44).take 9) =
    some [(1, .ev ⟨"ld", "h.0", "n1.0", ""⟩),
          (1, .ev ⟨"ld", "h.0", "n1.0", ""⟩),             -- fast path: pCur = n1, key equal
          (1, .ev ⟨"ld", "n1.0", "null|1", ""⟩),          -- qChk: pCur->next(0) is marked -> find_fastpath_abort
          (1, .ev ⟨"ld", "h.2", "null", ""⟩),             -- slow path: find_position from the top
          (1, .ev ⟨"ld", "h.2", "null", ""⟩),
          (1, .ev ⟨"ld", "h.1", "null", ""⟩),
          (1, .ev ⟨"ld", "h.1", "null", ""⟩),
          (1, .ev ⟨"ld", "h.0", "n1.0", ""⟩),
          (1, .ev ⟨"ld", "h.0", "n1.0", ""⟩)] := by decide +kernel


/-! ### The repaired code: linearizability and the invariant, for all schedules -/

/-- **Linearizability of the lock-free skip list** (repaired fast path), general form (Herlihy–Wing with completion
    of pending operations), for EVERY configuration with `c_nMaxHeight ≥ 1` (any tower-height generator), EVERY
    schedule, any number of threads and any keys: the history of the completed operations — extended by response
    records for pending operations that have already passed their definitive linearization point (successful inserts
    and erases inside `insert_at_position` / `try_remove_at`; at most one per thread), all other pending operations
    being dropped — is linearizable to the sequential map. -/
theorem C15_skiplist_linearizable (c : SkipList.Cfg) (hc : 0 < c.maxH) (hmt : c.markTest = true)
    (sched : List (Tid × Act)) (s : SkipList.St) (os : List (Tid × Obs))
    (h : (SkipList.model c).run (SkipList.init c) sched = some (s, os)) :
    ∃ extra : List (OpRec GOp GRet),
      (∀ e ∈ extra, SkipList.pendingOf os e.tid = some (e.op, e.inv) ∧ e.res = os.length ∧
          SkipList.postRet s.val (s.pc e.tid) = some e.ret) ∧
      extra.Pairwise (fun a b => a.tid ≠ b.tid) ∧
      Linearizable map (SkipList.historyOf os ++ extra) :=
  SkipList.skiplist_linearizable hc hmt sched s os h

/-- Runs in which every invoked operation has returned: the history is linearizable as it is.  (For
    `markTest := false` this very statement is refuted by `C15_skiplist_not_linearizable_without_mark_test`.) -/
theorem C15_skiplist_linearizable_complete_runs (c : SkipList.Cfg) (hc : 0 < c.maxH) (hmt : c.markTest = true)
    (sched : List (Tid × Act)) (s : SkipList.St) (os : List (Tid × Obs))
    (h : (SkipList.model c).run (SkipList.init c) sched = some (s, os)) (hq : ∀ t, s.pc t = .idle) :
    Linearizable map (SkipList.historyOf os) :=
  SkipList.skiplist_linearizable_complete_runs hc hmt sched s os h hq

/-- Runs at whose end no thread is between its definitive linearization point and its return. -/
theorem C15_skiplist_linearizable_no_effect_pending (c : SkipList.Cfg) (hc : 0 < c.maxH) (hmt : c.markTest = true)
    (sched : List (Tid × Act)) (s : SkipList.St) (os : List (Tid × Obs))
    (h : (SkipList.model c).run (SkipList.init c) sched = some (s, os))
    (hq : ∀ t, SkipList.postRet s.val (s.pc t) = none) : Linearizable map (SkipList.historyOf os) :=
  SkipList.skiplist_linearizable_no_effect_pending hc hmt sched s os h hq

/-- The harness configuration is an instance. -/
example (sched : List (Tid × Act)) (s : SkipList.St) (os : List (Tid × Obs))
    (h : (SkipList.model cfgR).run (SkipList.init cfgR) sched = some (s, os)) (hq : ∀ t, s.pc t = .idle) :
    Linearizable map (SkipList.historyOf os) :=
  C15_skiplist_linearizable_complete_runs cfgR (by decide) rfl sched s os h hq

/-- **The invariant holds in every reachable state** (`SkipList.SInvL`: global part `g`, per-thread part `thr`, and
    ownership of the private items). -/
theorem C15_skiplist_invariant (c : SkipList.Cfg) (hc : 0 < c.maxH) (hmt : c.markTest = true)
    (sched : List (Tid × Act)) (s : SkipList.St) (os : List (Tid × Obs))
    (h : (SkipList.model c).run (SkipList.init c) sched = some (s, os)) : ∃ L, SkipList.SInvL c s L :=
  SkipList.sinv_run hc hmt sched s os h

/-- Readings of the invariant.  In every reachable state there is a list `L = 0 :: …` (the head, then the items linked
    on level 0) such that: `L` is the level-0 chain from the head; the keys along it are STRICTLY increasing (no key is
    present twice); every tower word of every level holds null or an item `b ≠ head` that is published — on `L`, or
    marked on level 0 — and has a tower taller than that level; an item marked on level 0 is marked on every level of
    its tower; the head is never marked. -/
theorem C15_skiplist_structure (c : SkipList.Cfg) (hc : 0 < c.maxH) (hmt : c.markTest = true)
    (sched : List (Tid × Act)) (s : SkipList.St) (os : List (Tid × Obs))
    (h : (SkipList.model c).run (SkipList.init c) sched = some (s, os)) :
    ∃ L, Michael.Chain (fun a => s.next a 0) (some 0) L ∧
      L.Pairwise (fun a b => b ≠ 0 ∧ (a = 0 ∨ s.key a < s.key b)) ∧
      (∀ a l b, s.next a l = some b → b ≠ 0 ∧ (b ∈ L ∨ s.mark b 0 = true) ∧ l < s.ht b) ∧
      (∀ a l, s.mark a 0 = true → l < s.ht a → s.mark a l = true) ∧
      s.mark 0 0 = false := by
  obtain ⟨L, hl⟩ := SkipList.sinv_run hc hmt sched s os h
  exact ⟨L, hl.g.chain, hl.g.sorted, hl.g.ptr, hl.g.mmono, hl.g.mark0_head⟩

/-- The level-0 clauses of the executable predicate `SkipList.invB` (which `cdsdriver replay skiplist` evaluates on
    every state of every replayed trace) hold in EVERY reachable state: the items reached from the head along level 0
    (`levelNodes s 0`, computed by walking the pointers) have strictly increasing keys — no key twice —, are allocated
    items; and an item marked on level 0 is marked on every level of its tower.  (The clauses of `invB` about the
    UPPER levels — sorted, sub-list of the level below — are not proved.) -/
theorem C15_skiplist_level0 (c : SkipList.Cfg) (hc : 0 < c.maxH) (hmt : c.markTest = true)
    (sched : List (Tid × Act)) (s : SkipList.St) (os : List (Tid × Obs))
    (h : (SkipList.model c).run (SkipList.init c) sched = some (s, os)) :
    (SkipList.levelNodes s 0).Pairwise (fun a b => s.key a < s.key b) ∧
    (∀ a, a ∈ SkipList.levelNodes s 0 → 0 < a ∧ a < s.cnt ∧ 0 < s.ht a) ∧
    (∀ a, s.mark a 0 = true → ∀ l, l < s.ht a → s.mark a l = true) := by
  obtain ⟨L, hl⟩ := SkipList.sinv_run hc hmt sched s os h
  exact hl.level0

/-- Erase once, step level (any state): level 0 of an item is marked only by the marking CAS of `try_remove_at` of a
    thread erasing that item, which then answers `[1, val]` (`eMk … 0` is not reachable: the upper-level loop of
    `try_remove_at` runs over levels ≥ 1 — `SkipList.TOk`). -/
theorem C15_skiplist_mark_once {c : SkipList.Cfg} {s s' : SkipList.St} {t : Tid} {ev : Ev}
    (h : SkipList.step c s t = some (s', ev)) (a : Nat) (h0 : s.mark a 0 = false) (h1 : s'.mark a 0 = true) :
    (∃ k p pp ps, s.pc t = .e0Mk k a p pp ps ∧ s'.pc t = .eH1 k a (s.ht a - 1) pp ps) ∨
    (∃ k sx pp ps, s.pc t = .eMk k a 0 sx pp ps) :=
  SkipList.mark0_set_step h a h0 h1

/-! ### Further runs of the machine -/

/-- Heights: item 1 has a tower of height 2, item 2 of height 3. -/
def cfg2 : SkipList.Cfg := { maxH := 3, ht := fun j => if j = 1 then 2 else 3 }

/-- Two racing inserts of different heights.  Thread 0 inserts key 5 (height 2), thread 1 key 3 (height 3); both find
    the list empty.  Thread 0 links level 0 first; thread 1's level-0 CAS fails (`cas- h.0 n1.0 null`), it searches
    again and links `n2` in front of `n1` on all three levels.  Thread 0's CAS on `h.1` then fails
    (`cas- h.1 n2.0 null`): `renew_insert_position` rescans, finds `n2` as the new predecessor on level 1, and the level
    is linked behind it (`cas+ n2.1 null n1.0`).  At the end every level is sorted and a sub-list of the level below. -/
def raceSched : List (Tid × Act) :=
  [(0, .invoke (ins 5 10)), (1, .invoke (ins 3 20))] ++ steps 0 6 ++ steps 1 6 ++ steps 0 4 ++ steps 1 21 ++ [(1, .ret)] ++
  steps 0 16 ++ [(0, .ret)]

example : ((SkipList.model cfg2).run (SkipList.init cfg2) raceSched).map (fun r => (r.2.drop 14)) =
    some [(0, .ev ⟨"st", "n1.1", "null", ""⟩),
          (0, .ev ⟨"st", "n1.0", "null", ""⟩),
          (0, .ev ⟨"cas+", "h.0", "null", "n1.0"⟩),        -- linearization point of insert 5
          (0, .ev ⟨"cas+", "n1.1", "null", "null"⟩),       -- level 1 of n1 prepared ...
          (1, .ev ⟨"st", "n2.1", "null", ""⟩),
          (1, .ev ⟨"st", "n2.2", "null", ""⟩),
          (1, .ev ⟨"st", "n2.0", "null", ""⟩),
          (1, .ev ⟨"cas-", "h.0", "n1.0", "null"⟩),        -- T 1 A cas- h.0 n1.0 null   (lost the race on level 0): retry
          (1, .ev ⟨"ld", "h.2", "null", ""⟩),
          (1, .ev ⟨"ld", "h.2", "null", ""⟩),
          (1, .ev ⟨"ld", "h.1", "null", ""⟩),
          (1, .ev ⟨"ld", "h.1", "null", ""⟩),
          (1, .ev ⟨"ld", "h.0", "n1.0", ""⟩),
          (1, .ev ⟨"ld", "h.0", "n1.0", ""⟩),
          (1, .ev ⟨"ld", "n1.0", "null", ""⟩),
          (1, .ev ⟨"ld", "h.0", "n1.0", ""⟩),
          (1, .ev ⟨"st", "n2.1", "null", ""⟩),
          (1, .ev ⟨"st", "n2.2", "null", ""⟩),
          (1, .ev ⟨"st", "n2.0", "n1.0", ""⟩),
          (1, .ev ⟨"cas+", "h.0", "n1.0", "n2.0"⟩),        -- linearization point of insert 3
          (1, .ev ⟨"cas+", "n2.1", "null", "null"⟩),
          (1, .ev ⟨"cas+", "h.1", "null", "n2.0"⟩),        -- n2 linked on level 1 before n1
          (1, .ev ⟨"cas+", "n2.2", "null", "null"⟩),
          (1, .ev ⟨"cas+", "h.2", "null", "n2.0"⟩),
          (1, .ev ⟨"ld", "hgt", "5", ""⟩),
          (1, .ret [1]),
          (0, .ev ⟨"cas-", "h.1", "n2.0", "null"⟩),        -- T 0 A cas- h.1 n2.0 null   : renew_insert_position
          (0, .ev ⟨"ld", "h.2", "n2.0", ""⟩),
          (0, .ev ⟨"ld", "h.2", "n2.0", ""⟩),
          (0, .ev ⟨"ld", "n2.2", "null", ""⟩),
          (0, .ev ⟨"ld", "h.2", "n2.0", ""⟩),
          (0, .ev ⟨"ld", "n2.2", "null", ""⟩),
          (0, .ev ⟨"ld", "n2.2", "null", ""⟩),
          (0, .ev ⟨"ld", "n2.1", "null", ""⟩),
          (0, .ev ⟨"ld", "n2.1", "null", ""⟩),
          (0, .ev ⟨"ld", "n2.0", "n1.0", ""⟩),
          (0, .ev ⟨"ld", "n2.0", "n1.0", ""⟩),
          (0, .ev ⟨"ld", "n1.0", "null", ""⟩),
          (0, .ev ⟨"ld", "n2.0", "n1.0", ""⟩),
          (0, .ev ⟨"cas+", "n1.1", "null", "null"⟩),
          (0, .ev ⟨"cas+", "n2.1", "null", "n1.0"⟩),       -- level 1 linked behind the NEW predecessor
          (0, .ev ⟨"ld", "hgt", "5", ""⟩),
          (0, .ret [1])] := by decide +kernel

set_option synthInstance.maxSize 2000 in
example : ((SkipList.model cfg2).run (SkipList.init cfg2) raceSched).map
    (fun r => (SkipList.levelNodes r.1 0, SkipList.levelNodes r.1 1, SkipList.levelNodes r.1 2, SkipList.absMap r.1,
      SkipList.wellFormed r.1 3, linCheck map (SkipList.historyOf r.2))) =
    some ([2, 1], [2, 1], [2], [(3, 20), (5, 10)], true, true) := by decide +kernel

end CdsVerif.Props.C15SkipList

/-
  Atomic-step model of `cds::intrusive::IterableList` (cds/intrusive/impl/iterable_list.h) with its thread-safe
  iterator and `erase_at( iterator )`:  `insert`, `update`, `erase`, `find`, `contains` (functions `insert_at`,
  `update_at`, `erase_at( pHead, … )`, `find_at`, `search`, `inserting_search`, `link_data`, `find_prev`,
  `unlink_data`), `begin()`, `end()`, `iterator::operator++` (`iterator_type::next`), `erase_at( iterator const& )`
  and the iterator's destructor.

  The list.  `m_Head` and `m_Tail` are nodes; `m_Tail.next == &m_Tail`.  A node is `{ atomic next; atomic<marked
  ptr> data }`.  Nodes are never unlinked while the list lives; an element is a `value_type*` stored in a node's
  `data`; erasing an element stores null there; an insert re-uses an emptied node or links a new one.

    search( val ):                                    -- find / contains / erase
        pPrev = head
        while ( true ) {
            pCur = pPrev->next.load()                                   -- wNext
            if ( pCur == pCur->next.load()) return not-found            -- wTail     (the tail points to itself)
            pVal = guard.protect( pCur->data ).ptr()                    -- wLd1, wLd2 (gc::Guard::protect:
                                                                        --   pCur = load; do { pRet = pCur; hp := ptr( pCur );
                                                                        --   pCur = load } while ( pRet != pCur ); the comparison
                                                                        --   includes the mark bit)
            if ( pVal && cmp( *pVal, val ) >= 0 ) return ( pPrev, pCur, pVal ), cmp == 0
            pPrev = pCur
        }
    inserting_search( val ): the same walk, preceded by  pPrevVal = head->data.load().ptr()   -- wHead
        and keeping pPrevVal = the value protected in pPrev.
    erase( key ):   while ( search ) { if ( pCur->data.CAS( pFound, null )) { retire( pFound ); return true }}   -- eraseCas
    update( val ):  loop { if ( inserting_search ) { if ( pCur->data.CAS( pFound, &val )) { retire( pFound );   -- updCas
                           return (true,false) }} else if ( !bInsert ) return (false,false)
                           else if ( link_data ) return (true,true) }
    insert( val ):  loop { if ( inserting_search ) return false; if ( link_data ) return true }
    link_data( pVal, pos ):
        if ( !pos.pCur->data.CAS( pFound, pFound|1 )) return false                                  -- lMarkCur
        if ( !pos.pPrev->data.CAS( pPrevVal, pPrevVal|1 )) { pCur->data.store( pFound ); return false }   -- lMarkPrev, lRelCur
        if ( pos.pPrev->next.load() != pos.pCur ) { restore both; return false }                    -- lChkNext, lRelPrev, lRelCur
        if ( pPrevVal == null && find_prev( head, *pVal ) != pos.pPrev ) { restore both; return false }  -- the walk again
        if ( pos.pPrev != head && pPrevVal == null ) {
            result = pPrev->data.CAS( null|1, pVal )                                                -- lReuse
            pCur->data.store( pFound )                                                              -- lRelCur
            if ( result ) return true            -- (a failed CAS falls through to `return false` WITHOUT restoring pPrev->data)
        } else {
            pNode = new node( pVal )      -- constructor: next.store( null ), data.store( pVal )    -- lCtor1, lCtor2
            pNode->next.store( pCur )                                                               -- lStNext
            result = pPrev->next.CAS( pCur, pNode )                                                 -- lCasNext
            pPrev->data.store( pPrevVal ); pCur->data.store( pFound )                               -- lRelPrev, lRelCur
            if ( result ) return true;  delete pNode
        }
        return false
    iterator:  begin(): m_pNode = head; if ( !m_Guard.protect( head->data ).ptr()) next()           -- itLd1, itHp, itLd2
               next():  for ( p = m_pNode->next.load(); p != m_pNode; p = p->next.load()) {         -- itNext
                            m_pNode = p; if ( m_Guard.protect( p->data ).ptr()) return }            -- itLd1, itHp, itLd2
                        m_Guard.clear()                                                             -- itClr
               end():   an iterator on the tail: protect( tail->data ) (null), next() reads tail->next == tail   -- endLd1, endLd2, endNext
               ~iterator: m_Guard is cleared                                                        -- relClr
    erase_at( iter ):   loop { val = iter.data();
                               if ( iter.m_pNode->data.CAS( val, null )) { retire( val ); return true }   -- eaCas
                               if ( observed.ptr() != val ) return false }      -- only the mark bit differs: retry

  One `step` = one atomic operation on shared memory (or on the iterator's hazard slot); back-off is not a step;
  `compare_exchange` never fails spuriously; interleavings are sequentially consistent.

  NOT modelled: `insert_aux_node` / `link_aux_node` (protected interface for SplitListSet, not reachable through the
  public interface of the list), `clear()`, the destructor, `unlink`, `extract`/`get`, the item counter, statistics.

  Reclamation is modelled abstractly, as C01/C02 provide it:
    * every thread has ONE modelled guard slot: the guard `m_Guard` of its iterator (`hp t`).  Its hazard store is an
      atomic step of its own (`itHp`), the validating re-load another (`itLd2`).  The guards used inside
      `search` / `inserting_search` / `find_prev` / `update` are not modelled: they protect the elements whose
      KEYS the walk reads; the model reads keys from an immutable table.
    * `retire( e )` happens in the step of the successful CAS that removed `e` (in the code it follows it without
      an intervening shared-memory operation and only appends to a thread-local array).
    * `dispose e` is an operation any client thread can invoke; it is enabled iff `e` is retired, not yet disposed
      and NO guard slot holds `e` at that instant.  The scan reads all hazard slots atomically (SIMPLIFICATION; the
      harness executes `HP::scan()` as one atomic step as well).
    * elements are never re-used: `insert`/`update` are enabled only for an element id that has never been used.

  Nodes are natural numbers: 0 is the null pointer, 1 is `m_Head`, 2 is `m_Tail`, 3, 4, … are allocated in this
  order.  GHOST fields (`lk`, `lt`, `mo`, `home`, `hv`, `yl`, `cand`) are written by steps but never read by a guard,
  a branch or an event: they are history variables for the invariants.

  Event rendering (the `A` lines of the harness trace; locations `h`, `t`, `n<i>` are the `next` words, `h.data`,
  `t.data`, `n<i>.data` the data words, `it.hp` the iterator's hazard slot; values are `null`, `h`, `t`, `n<i>`,
  `e<id>`, with `|1` appended for a marked data pointer).
-/
import CdsVerif.Base.Machine
namespace CdsVerif.Algo.Iterable
open CdsVerif.Machine CdsVerif.Spec

/-- A data word: element pointer and mark bit. -/
structure DW where
  p : Option Nat
  m : Bool
deriving DecidableEq, Repr

/-- An insert-like operation in progress: key, element, `update`?, `bInsert`. -/
structure Job where
  k : Int
  e : Nat
  upd : Bool
  allow : Bool
deriving DecidableEq, Repr

/-- `insert_position`. -/
structure Pos where
  prev : Nat
  cur : Nat
  found : Option Nat
  pv : Option Nat
deriving DecidableEq, Repr

/-- What a list walk is for. -/
inductive Purp
  | find | contains | erase              -- `search`
  | ins (j : Job)                        -- `inserting_search`
  | fprev (j : Job) (p : Pos)            -- `find_prev` inside `link_data`
deriving DecidableEq, Repr

inductive PC
  | idle
  | wHead (j : Job)                                                       -- next: pPrevVal = head->data.load()
  | wNext (pu : Purp) (k : Int) (prev : Nat) (pv : Option Nat)            -- next: pCur = pPrev->next.load()
  | wTail (pu : Purp) (k : Int) (prev : Nat) (pv : Option Nat) (cur : Nat)          -- next: pCur->next.load() == pCur ?
  | wLd1 (pu : Purp) (k : Int) (prev : Nat) (pv : Option Nat) (cur : Nat)           -- next: first load of protect( pCur->data )
  | wLd2 (pu : Purp) (k : Int) (prev : Nat) (pv : Option Nat) (cur : Nat) (w : DW)  -- next: validating load of protect
  | eraseCas (k : Int) (cur : Nat) (e : Nat)                              -- next: CAS( pCur->data, e, null )
  | updCas (j : Job) (cur : Nat) (e : Nat)                                -- next: CAS( pCur->data, e, &val )
  | lMarkCur (j : Job) (p : Pos)                                          -- next: CAS( pCur->data, found, found|1 )
  | lMarkPrev (j : Job) (p : Pos)                                         -- next: CAS( pPrev->data, pv, pv|1 )
  | lChkNext (j : Job) (p : Pos)                                          -- next: pPrev->next.load() != pCur ?
  | lReuse (j : Job) (p : Pos)                                            -- next: CAS( pPrev->data, null|1, pVal )
  | lCtor1 (j : Job) (p : Pos)                                            -- next: new node: next.store( null )
  | lCtor2 (j : Job) (p : Pos) (n : Nat)                                  -- next: node constructor: data.store( pVal )
  | lStNext (j : Job) (p : Pos) (n : Nat)                                 -- next: pNode->next.store( pCur )
  | lCasNext (j : Job) (p : Pos) (n : Nat)                                -- next: CAS( pPrev->next, pCur, pNode )
  | lRelPrev (j : Job) (p : Pos) (ok : Bool)                              -- next: pPrev->data.store( pv )
  | lRelCur (j : Job) (p : Pos) (ok : Bool)                               -- next: pCur->data.store( found ); return ok
  | itLd1                                                                 -- next: first load of m_Guard.protect( m_pNode->data )
  | itHp (w : DW)                                                         -- next: hazard store  hp := ptr( w )
  | itLd2 (w : DW)                                                        -- next: validating load
  | itNext                                                                -- next: p = m_pNode->next.load()
  | itClr                                                                 -- next: m_Guard.clear()
  | endLd1 | endLd2 (w : DW) | endNext                                    -- end(): an iterator on the tail
  | eaCas (e : Nat)                                                       -- next: CAS( m_pNode->data, e, null )
  | relClr                                                                -- next: ~iterator: guard cleared
  | done (r : GRet)
deriving DecidableEq, Repr

structure St where
  nt : Nat                       -- threads 0 … nt-1 exist (the hazard slots a scan reads)
  next : Nat → Nat               -- `next` of every node (0 = null)
  data : Nat → DW                -- `data` of every node
  ncnt : Nat                     -- next fresh node
  key : Nat → Int                -- key of every element (immutable once the element id is used)
  used : Nat → Bool              -- element ids handed to insert / update so far
  retired : Nat → Option Tid     -- who retired the element
  disposed : Nat → Bool
  hp : Tid → Option Nat          -- the hazard slot of the thread's iterator guard
  itn : Tid → Nat                -- the iterator's m_pNode
  pc : Tid → PC
  -- ghost (never read by a transition)
  lk : Nat → Bool                -- the node has been linked into the chain
  lt : Nat → Nat → Bool          -- chain order of the linked nodes: `lt a b` = a comes strictly before b
  mo : Nat → Option Tid          -- who set the mark bit of the node's data word
  home : Nat → Option Nat        -- the node the element was stored into (set once)
  hv : Tid → Bool                -- the value in the thread's hazard slot has been validated by the re-load
  yl : Tid → List Nat            -- the elements yielded by the thread's iterator since `iter_begin`
  cand : Tid → Nat → Bool        -- in the list at the thread's `iter_begin` and never removed since

def hd : Nat := 1
def tl : Nat := 2

def init (n : Nat) : St :=
  { nt := n
    next := fun a => if a = 1 ∨ a = 2 then 2 else 0
    data := fun _ => ⟨none, false⟩
    ncnt := 3
    key := fun _ => 0
    used := fun _ => false
    retired := fun _ => none
    disposed := fun _ => false
    hp := fun _ => none
    itn := fun _ => 1
    pc := fun _ => .idle
    lk := fun a => a == 1 || a == 2
    lt := fun a b => a == 1 && b == 2
    mo := fun _ => none
    home := fun _ => none
    hv := fun _ => false
    yl := fun _ => []
    cand := fun _ _ => false }

/-! ### Event rendering (the only place where events are built) -/

def nname (a : Nat) : String :=
  if a = 0 then "null" else if a = 1 then "h" else if a = 2 then "t" else s!"n{a}"
def dloc (a : Nat) : String := nname a ++ ".data"
def pname : Option Nat → String
  | none => "null"
  | some e => s!"e{e}"
def wname (w : DW) : String := if w.m then pname w.p ++ "|1" else pname w.p
def hpLoc : String := "it.hp"

def evLdN (a v : Nat) : Ev := ⟨"ld", nname a, nname v, ""⟩
def evStN (a v : Nat) : Ev := ⟨"st", nname a, nname v, ""⟩
def evCasNOk (a old new : Nat) : Ev := ⟨"cas+", nname a, nname old, nname new⟩
def evCasNFail (a seen expected : Nat) : Ev := ⟨"cas-", nname a, nname seen, nname expected⟩
def evLdD (a : Nat) (w : DW) : Ev := ⟨"ld", dloc a, wname w, ""⟩
def evStD (a : Nat) (w : DW) : Ev := ⟨"st", dloc a, wname w, ""⟩
def evCasDOk (a : Nat) (old new : DW) : Ev := ⟨"cas+", dloc a, wname old, wname new⟩
def evCasDFail (a : Nat) (seen expected : DW) : Ev := ⟨"cas-", dloc a, wname seen, wname expected⟩
def evStHp (v : Option Nat) : Ev := ⟨"st", hpLoc, pname v, ""⟩

/-! ### Local control flow (pure functions of the thread's local variables) -/

/-- After both marks are set and `pPrev->next == pCur` has been re-checked (and `find_prev` agreed):
    re-use `pPrev` or link a new node. -/
def proceed (j : Job) (p : Pos) : PC :=
  if p.prev ≠ hd ∧ p.pv = none then .lReuse j p else .lCtor1 j p

/-- The walk stopped at `( prev, cur )`; `fnd` is the element protected in `cur` (none: `cur` is the tail),
    `eq` tells whether its key equals `k`. -/
def concl (pu : Purp) (k : Int) (prev : Nat) (pv : Option Nat) (cur : Nat) (fnd : Option Nat) (eq : Bool) : PC :=
  match pu with
  | .find => match fnd with
    | some e => if eq then .done [1, (e : Int)] else .done [0]
    | none => .done [0]
  | .contains => if eq then .done [1] else .done [0]
  | .erase => match fnd with
    | some e => if eq then .eraseCas k cur e else .done [0]
    | none => .done [0]
  | .ins j => match fnd, eq with
    | some e, true => if j.upd then .updCas j cur e else .done [0]
    | _, _ => if j.upd && !j.allow then .done [0, 0, 0] else .lMarkCur j ⟨prev, cur, fnd, pv⟩
  | .fprev j p => if prev = p.prev then proceed j p else .lRelPrev j p false

/-- Where an operation starts (again). -/
def restart (pu : Purp) (k : Int) : PC :=
  match pu with
  | .ins j => .wHead j
  | _ => .wNext pu k hd none

/-- Result of a successful insert-like operation. -/
def okRet (j : Job) : GRet := if j.upd then [1, 1, 0] else [1]

/-! ### Ghost: chain order after linking `x` between `p` and `c` -/

def ltIns (lt : Nat → Nat → Bool) (p c x : Nat) : Nat → Nat → Bool := fun a b =>
  if a = x then (b != x) && (b == c || lt c b)
  else if b = x then a == p || lt a p
  else lt a b

/-- `e` is in the list: stored in a linked node. -/
def inList (s : St) (e : Nat) : Bool :=
  match s.home e with
  | some a => s.lk a && ((s.data a).p == some e)
  | none => false

/-- No hazard slot holds `e` (what a scan establishes). -/
def unguarded (s : St) (e : Nat) : Bool := (List.range s.nt).all (fun t => s.hp t != some e)

/-- Ghost effect of the removal of `e` from its node by thread `t`. -/
def St.removed (s : St) (t : Tid) (e : Nat) : St :=
  { s with retired := upd s.retired e (some t)
           cand := fun t' x => if x = e then false else s.cand t' x }

/-! ### Transitions -/

def invoke (s : St) (t : Tid) (op : GOp) : Option St :=
  if t < s.nt then
    match s.pc t, op.name, op.args with
    | .idle, "insert", [k, e] =>
      if s.used e.toNat then none else
      some { s with key := upd s.key e.toNat k, used := upd s.used e.toNat true,
                    pc := upd s.pc t (.wHead ⟨k, e.toNat, false, true⟩) }
    | .idle, "update", [k, e, allow] =>
      if s.used e.toNat then none else
      some { s with key := upd s.key e.toNat k, used := upd s.used e.toNat true,
                    pc := upd s.pc t (.wHead ⟨k, e.toNat, true, allow != 0⟩) }
    | .idle, "erase", [k] => some { s with pc := upd s.pc t (.wNext .erase k hd none) }
    | .idle, "find", [k] => some { s with pc := upd s.pc t (.wNext .find k hd none) }
    | .idle, "contains", [k] => some { s with pc := upd s.pc t (.wNext .contains k hd none) }
    | .idle, "iter_begin", [] =>
      some { s with itn := upd s.itn t hd, pc := upd s.pc t .itLd1,
                    yl := upd s.yl t [], cand := upd s.cand t (inList s) }
    | .idle, "iter_next", [] => some { s with pc := upd s.pc t .itNext }
    | .idle, "iter_end", [] => some { s with pc := upd s.pc t .endLd1 }
    | .idle, "erase_at", [] =>
      match s.hp t with
      | some e => some { s with pc := upd s.pc t (.eaCas e) }
      | none => none
    | .idle, "iter_release", [] => some { s with pc := upd s.pc t .relClr }
    | .idle, "dispose", [e] =>
      if s.retired e.toNat ≠ none ∧ s.disposed e.toNat = false ∧ unguarded s e.toNat = true then
        some { s with disposed := upd s.disposed e.toNat true, pc := upd s.pc t (.done []) }
      else none
    | _, _, _ => none
  else none

def step (s : St) (t : Tid) : Option (St × Ev) :=
  match s.pc t with
  -- the walk (search / inserting_search / find_prev)
  | .wHead j =>
    some ({ s with pc := upd s.pc t (.wNext (.ins j) j.k hd (s.data hd).p) }, evLdD hd (s.data hd))
  | .wNext pu k prev pv =>
    some ({ s with pc := upd s.pc t (.wTail pu k prev pv (s.next prev)) }, evLdN prev (s.next prev))
  | .wTail pu k prev pv cur =>
    if s.next cur = cur then
      some ({ s with pc := upd s.pc t (concl pu k prev pv cur none false) }, evLdN cur (s.next cur))
    else
      some ({ s with pc := upd s.pc t (.wLd1 pu k prev pv cur) }, evLdN cur (s.next cur))
  | .wLd1 pu k prev pv cur =>
    some ({ s with pc := upd s.pc t (.wLd2 pu k prev pv cur (s.data cur)) }, evLdD cur (s.data cur))
  | .wLd2 pu k prev pv cur w =>
    if s.data cur = w then
      match w.p with
      | some e =>
        if k ≤ s.key e then
          some ({ s with pc := upd s.pc t (concl pu k prev pv cur (some e) (s.key e == k)) }, evLdD cur w)
        else
          some ({ s with pc := upd s.pc t (.wNext pu k cur (some e)) }, evLdD cur w)
      | none => some ({ s with pc := upd s.pc t (.wNext pu k cur none) }, evLdD cur w)
    else
      some ({ s with pc := upd s.pc t (.wLd2 pu k prev pv cur (s.data cur)) }, evLdD cur (s.data cur))
  -- erase / update of an existing key
  | .eraseCas k cur e =>
    if s.data cur = ⟨some e, false⟩ then
      some ({ (s.removed t e) with data := upd s.data cur ⟨none, false⟩, pc := upd s.pc t (.done [1, (e : Int)]) },
            evCasDOk cur ⟨some e, false⟩ ⟨none, false⟩)
    else
      some ({ s with pc := upd s.pc t (.wNext .erase k hd none) }, evCasDFail cur (s.data cur) ⟨some e, false⟩)
  | .updCas j cur e =>
    if s.data cur = ⟨some e, false⟩ then
      some ({ (s.removed t e) with data := upd s.data cur ⟨some j.e, false⟩, home := upd s.home j.e (some cur),
                                   pc := upd s.pc t (.done [1, 0, (e : Int)]) },
            evCasDOk cur ⟨some e, false⟩ ⟨some j.e, false⟩)
    else
      some ({ s with pc := upd s.pc t (.wHead j) }, evCasDFail cur (s.data cur) ⟨some e, false⟩)
  -- link_data
  | .lMarkCur j p =>
    if s.data p.cur = ⟨p.found, false⟩ then
      some ({ s with data := upd s.data p.cur ⟨p.found, true⟩, mo := upd s.mo p.cur (some t),
                     pc := upd s.pc t (.lMarkPrev j p) },
            evCasDOk p.cur ⟨p.found, false⟩ ⟨p.found, true⟩)
    else
      some ({ s with pc := upd s.pc t (.wHead j) }, evCasDFail p.cur (s.data p.cur) ⟨p.found, false⟩)
  | .lMarkPrev j p =>
    if s.data p.prev = ⟨p.pv, false⟩ then
      some ({ s with data := upd s.data p.prev ⟨p.pv, true⟩, mo := upd s.mo p.prev (some t),
                     pc := upd s.pc t (.lChkNext j p) },
            evCasDOk p.prev ⟨p.pv, false⟩ ⟨p.pv, true⟩)
    else
      some ({ s with pc := upd s.pc t (.lRelCur j p false) }, evCasDFail p.prev (s.data p.prev) ⟨p.pv, false⟩)
  | .lChkNext j p =>
    if s.next p.prev = p.cur then
      some ({ s with pc := upd s.pc t (if p.pv = none then .wNext (.fprev j p) j.k hd none else proceed j p) },
            evLdN p.prev (s.next p.prev))
    else
      some ({ s with pc := upd s.pc t (.lRelPrev j p false) }, evLdN p.prev (s.next p.prev))
  | .lReuse j p =>
    if s.data p.prev = ⟨none, true⟩ then
      some ({ s with data := upd s.data p.prev ⟨some j.e, false⟩, mo := upd s.mo p.prev none,
                     home := upd s.home j.e (some p.prev), pc := upd s.pc t (.lRelCur j p true) },
            evCasDOk p.prev ⟨none, true⟩ ⟨some j.e, false⟩)
    else
      some ({ s with pc := upd s.pc t (.lRelCur j p false) }, evCasDFail p.prev (s.data p.prev) ⟨none, true⟩)
  | .lCtor1 j p =>
    some ({ s with next := upd s.next s.ncnt 0, ncnt := s.ncnt + 1, pc := upd s.pc t (.lCtor2 j p s.ncnt) },
          evStN s.ncnt 0)
  | .lCtor2 j p n =>
    some ({ s with data := upd s.data n ⟨some j.e, false⟩, home := upd s.home j.e (some n),
                   pc := upd s.pc t (.lStNext j p n) },
          evStD n ⟨some j.e, false⟩)
  | .lStNext j p n =>
    some ({ s with next := upd s.next n p.cur, pc := upd s.pc t (.lCasNext j p n) }, evStN n p.cur)
  | .lCasNext j p n =>
    if s.next p.prev = p.cur then
      some ({ s with next := upd s.next p.prev n, lk := upd s.lk n true, lt := ltIns s.lt p.prev p.cur n,
                     pc := upd s.pc t (.lRelPrev j p true) },
            evCasNOk p.prev p.cur n)
    else
      some ({ s with pc := upd s.pc t (.lRelPrev j p false) }, evCasNFail p.prev (s.next p.prev) p.cur)
  | .lRelPrev j p ok =>
    some ({ s with data := upd s.data p.prev ⟨p.pv, false⟩, mo := upd s.mo p.prev none,
                   pc := upd s.pc t (.lRelCur j p ok) },
          evStD p.prev ⟨p.pv, false⟩)
  | .lRelCur j p ok =>
    some ({ s with data := upd s.data p.cur ⟨p.found, false⟩, mo := upd s.mo p.cur none,
                   pc := upd s.pc t (if ok then .done (okRet j) else .wHead j) },
          evStD p.cur ⟨p.found, false⟩)
  -- the iterator
  | .itLd1 =>
    some ({ s with pc := upd s.pc t (.itHp (s.data (s.itn t))) }, evLdD (s.itn t) (s.data (s.itn t)))
  | .itHp w =>
    some ({ s with hp := upd s.hp t w.p, hv := upd s.hv t false, pc := upd s.pc t (.itLd2 w) }, evStHp w.p)
  | .itLd2 w =>
    if s.data (s.itn t) = w then
      match w.p with
      | some e =>
        some ({ s with hv := upd s.hv t true, yl := upd s.yl t (s.yl t ++ [e]),
                       pc := upd s.pc t (.done [1, (e : Int)]) }, evLdD (s.itn t) w)
      | none => some ({ s with hv := upd s.hv t true, pc := upd s.pc t .itNext }, evLdD (s.itn t) w)
    else
      some ({ s with pc := upd s.pc t (.itHp (s.data (s.itn t))) }, evLdD (s.itn t) (s.data (s.itn t)))
  | .itNext =>
    if s.next (s.itn t) = s.itn t then
      some ({ s with pc := upd s.pc t .itClr }, evLdN (s.itn t) (s.next (s.itn t)))
    else
      some ({ s with itn := upd s.itn t (s.next (s.itn t)), pc := upd s.pc t .itLd1 },
            evLdN (s.itn t) (s.next (s.itn t)))
  | .itClr =>
    some ({ s with hp := upd s.hp t none, hv := upd s.hv t false, pc := upd s.pc t (.done [0]) }, evStHp none)
  | .endLd1 => some ({ s with pc := upd s.pc t (.endLd2 (s.data tl)) }, evLdD tl (s.data tl))
  | .endLd2 w =>
    if s.data tl = w then
      some ({ s with pc := upd s.pc t (if w.p = none then .endNext else .done []) }, evLdD tl w)
    else
      some ({ s with pc := upd s.pc t (.endLd2 (s.data tl)) }, evLdD tl (s.data tl))
  | .endNext =>
    -- `next()` of the end iterator: the tail points to itself, the loop body is not entered.
    -- (If it did not, the end iterator would walk on: not modelled — `endNext_enabled` shows it cannot happen.)
    if s.next tl = tl then some ({ s with pc := upd s.pc t (.done []) }, evLdN tl tl) else none
  | .eaCas e =>
    if s.data (s.itn t) = ⟨some e, false⟩ then
      some ({ (s.removed t e) with data := upd s.data (s.itn t) ⟨none, false⟩, pc := upd s.pc t (.done [1]) },
            evCasDOk (s.itn t) ⟨some e, false⟩ ⟨none, false⟩)
    else if (s.data (s.itn t)).p = some e then
      some (s, evCasDFail (s.itn t) (s.data (s.itn t)) ⟨some e, false⟩)        -- only the mark differs: retry
    else
      some ({ s with pc := upd s.pc t (.done [0]) }, evCasDFail (s.itn t) (s.data (s.itn t)) ⟨some e, false⟩)
  | .relClr =>
    some ({ s with hp := upd s.hp t none, hv := upd s.hv t false, pc := upd s.pc t (.done []) }, evStHp none)
  | _ => none

def result (s : St) (t : Tid) : Option (St × GRet) :=
  match s.pc t with
  | .done r => some ({ s with pc := upd s.pc t .idle }, r)
  | _ => none

def model : Model St := ⟨invoke, step, result⟩

/-- The trace lines of a run, as the harness prints them (`T <tid> A <event>` for atomic events). -/
def render (os : List (Tid × Obs)) : List String :=
  os.map fun (t, o) => match o with
    | .call op => s!"T {t} C {op.name} {op.args}"
    | .ev e => s!"T {t} A {e}"
    | .ret r => s!"T {t} R {r}"

/-! ### Initial state of a harness case -/

/-- Run thread `t` until its operation has returned (sequential prefix: the constructor's pre-fill). -/
def runSeq (s : St) (t : Tid) : Nat → St
  | 0 => s
  | f + 1 =>
    match step s t with
    | some (s', _) => runSeq s' t f
    | none => match result s t with
      | some (s', _) => s'
      | none => s

def seqOp (s : St) (t : Tid) (op : GOp) : St :=
  match invoke s t op with
  | some s' => runSeq s' t 10000
  | none => s

/-- `prefill=k1,k2,…`: the fixture inserts these keys (element ids `1000 + k`) before the threads start. -/
def initCfg (cfg : List String) : St :=
  let keys : List Int := match cfg.find? (·.startsWith "prefill=") with
    | some w => ((w.drop 8).toString.splitOn ",").filterMap (·.toInt?)
    | none => []
  keys.foldl (fun s k => seqOp s 0 ⟨"insert", [k, 1000 + k]⟩) (init 16)

/-- The locations of the harness trace that belong to the model (everything else, e.g. the hazard-pointer
    implementation's own words and the guards of the updaters, is skipped by the replay). -/
def relevant (loc : String) : Bool :=
  loc == "h" || loc == "t" || loc == "h.data" || loc == "t.data" || loc == hpLoc || loc.startsWith "n"

/-- The chain from the head (fuel: number of nodes). -/
def chainFrom (s : St) : Nat → Nat → List Nat
  | 0, _ => []
  | f + 1, a => if a = tl then [a] else a :: chainFrom s f (s.next a)

def chain (s : St) : List Nat := chainFrom s s.ncnt hd

/-- The keys of the elements along the chain. -/
def content (s : St) : List (Nat × Int) :=
  (chain s).filterMap fun a => (s.data a).p.map fun e => (e, s.key e)

end CdsVerif.Algo.Iterable

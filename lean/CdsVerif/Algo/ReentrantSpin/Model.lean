/-
  Atomic-step model of `cds::sync::reentrant_spin_lock` (cds/sync/spinlock.h).

    is_taken( tid )      : return m_OwnerId.load() == tid;                              -- lkOwner
    try_taken_lock( tid ): if ( is_taken( tid )) { m_spin.fetch_add( 1 ); return true; } return false;   -- lkAdd
    try_acquire()        : nCurrent = 0; return m_spin.compare_exchange_weak( nCurrent, 1 );             -- lkCas
    acquire()            : while ( !try_acquire()) { while ( m_spin.load()) backoff(); }                 -- lkCas / lkSpin
    take( tid )          : m_OwnerId.store( tid );                                                       -- lkTake
    lock()               : if ( !try_taken_lock( tid )) { acquire(); take( tid ); }
    try_lock()           : if ( try_taken_lock( tid )) return true;
                           if ( try_acquire()) { take( tid ); return true; } return false;
    unlock()             : n = m_spin.load();                                                            -- unLd
                           if ( n > 1 ) m_spin.store( n - 1 );                                           -- unDec
                           else { m_OwnerId.store( null );                                               -- unFree
                                  m_spin.store( 0 ); }                                                   -- unZero

  Any number of locks (indexed by Nat) and threads.  One `step` = one atomic operation, in source order.
  `compare_exchange_weak` never fails spuriously in the model (a spurious failure is a retry that changes
  nothing).  The `assert( is_taken( tid ))` of `unlock` is compiled out (NDEBUG) and is the client discipline here.

  Event rendering (the `A` lines of the harness trace; thread ids are rendered through the alias `T<tid>`,
  the null thread id as `0`):
      ld   L<l>.owner <own>          load of m_OwnerId           (<own> = T<tid> | 0)
      add  L<l>.spin  <old> 1        fetch_add( 1 ) on m_spin
      cas+ L<l>.spin  0 1            successful CAS( m_spin, 0, 1 )
      cas- L<l>.spin  <seen> 0       failed CAS (value seen, value expected)
      ld   L<l>.spin  <v>            load of m_spin
      st   L<l>.owner <own>          store to m_OwnerId
      st   L<l>.spin  <v>            store to m_spin

  Ghost fields (never read by a transition's control flow, except for the client discipline in `invoke`):
    `depth t l`  = number of lock()/successful try_lock() calls of thread `t` on lock `l` that have returned
                   (more precisely: performed their last atomic step) and whose matching unlock() has not yet
                   performed ITS last atomic step;
    `holder l`   = the thread between its successful CAS( m_spin, 0, 1 ) and its store m_spin := 0.
-/
import CdsVerif.Base.Machine
namespace CdsVerif.Algo.ReentrantSpin
open CdsVerif.Machine CdsVerif.Spec

inductive PC
  | idle
  | lkOwner (l : Nat) (try_ : Bool)   -- next: load m_OwnerId (is_taken); try_ = inside try_lock()
  | lkAdd (l : Nat) (r : GRet)        -- next: m_spin.fetch_add( 1 ); then return r
  | lkCas (l : Nat) (try_ : Bool)     -- next: CAS( m_spin, 0, 1 )
  | lkSpin (l : Nat)                  -- next: load m_spin in the inner wait loop of acquire()
  | lkTake (l : Nat) (r : GRet)       -- next: m_OwnerId.store( me ); then return r
  | unLd (l : Nat) (r : GRet)         -- next: n = m_spin.load()
  | unDec (l : Nat) (n : Nat) (r : GRet)   -- next: m_spin.store( n - 1 ); then return r
  | unFree (l : Nat) (r : GRet)       -- next: m_OwnerId.store( null )
  | unZero (l : Nat) (r : GRet)       -- next: m_spin.store( 0 ); then return r
  | done (r : GRet)
deriving DecidableEq, Repr

structure St where
  spin : Nat → Nat                 -- m_spin of every lock
  owner : Nat → Option Tid         -- m_OwnerId of every lock (none = c_NullThreadId)
  pc : Tid → PC
  depth : Tid → Nat → Nat          -- ghost
  holder : Nat → Option Tid        -- ghost

def init : St := ⟨fun _ => 0, fun _ => none, fun _ => .idle, fun _ _ => 0, fun _ => none⟩

/-! ### Event rendering (the only place where events are built) -/

def spinLoc (l : Nat) : String := s!"L{l}.spin"
def ownerLoc (l : Nat) : String := s!"L{l}.owner"
def tidStr : Option Tid → String
  | none => "0"
  | some t => s!"T{t}"

def evLdOwner (l : Nat) (v : Option Tid) : Ev := ⟨"ld", ownerLoc l, tidStr v, ""⟩
def evStOwner (l : Nat) (v : Option Tid) : Ev := ⟨"st", ownerLoc l, tidStr v, ""⟩
def evLdSpin (l : Nat) (v : Nat) : Ev := ⟨"ld", spinLoc l, toString v, ""⟩
def evStSpin (l : Nat) (v : Nat) : Ev := ⟨"st", spinLoc l, toString v, ""⟩
def evAdd (l : Nat) (old : Nat) : Ev := ⟨"add", spinLoc l, toString old, "1"⟩
def evCasOk (l : Nat) : Ev := ⟨"cas+", spinLoc l, "0", "1"⟩
def evCasFail (l : Nat) (seen : Nat) : Ev := ⟨"cas-", spinLoc l, toString seen, "0"⟩

/-! ### Transitions -/

/-- Client discipline: `unlock l` is only called by a thread that holds `l` (`depth t l > 0`);
    `unlock_if l` releases one level of `l` if the thread holds it and does nothing otherwise.
    The first argument of every operation is the calling thread (as in the harness histories) and is not used. -/
def invoke (s : St) (t : Tid) (op : GOp) : Option St :=
  match s.pc t, op.name, op.args with
  | .idle, "lock", [_, l] => some { s with pc := upd s.pc t (.lkOwner l.toNat false) }
  | .idle, "try_lock", [_, l] => some { s with pc := upd s.pc t (.lkOwner l.toNat true) }
  | .idle, "unlock", [_, l] =>
    if s.depth t l.toNat > 0 then some { s with pc := upd s.pc t (.unLd l.toNat []) } else none
  | .idle, "unlock_if", [_, l] =>
    if s.depth t l.toNat > 0 then some { s with pc := upd s.pc t (.unLd l.toNat [1]) }
    else some { s with pc := upd s.pc t (.done [0]) }
  | _, _, _ => none

def step (s : St) (t : Tid) : Option (St × Ev) :=
  match s.pc t with
  | .lkOwner l try_ =>
    if s.owner l = some t then
      some ({ s with pc := upd s.pc t (.lkAdd l (if try_ then [1] else [])) }, evLdOwner l (s.owner l))
    else
      some ({ s with pc := upd s.pc t (.lkCas l try_) }, evLdOwner l (s.owner l))
  | .lkAdd l r =>
    some ({ s with spin := upd s.spin l (s.spin l + 1), pc := upd s.pc t (.done r),
                   depth := upd2 s.depth t l (s.depth t l + 1) }, evAdd l (s.spin l))
  | .lkCas l try_ =>
    if s.spin l = 0 then
      some ({ s with spin := upd s.spin l 1, pc := upd s.pc t (.lkTake l (if try_ then [1] else [])),
                     holder := upd s.holder l (some t) }, evCasOk l)
    else
      some ({ s with pc := upd s.pc t (if try_ then .done [0] else .lkSpin l) }, evCasFail l (s.spin l))
  | .lkSpin l =>
    some ({ s with pc := upd s.pc t (if s.spin l = 0 then .lkCas l false else .lkSpin l) }, evLdSpin l (s.spin l))
  | .lkTake l r =>
    some ({ s with owner := upd s.owner l (some t), pc := upd s.pc t (.done r),
                   depth := upd2 s.depth t l (s.depth t l + 1) }, evStOwner l (some t))
  | .unLd l r =>
    some ({ s with pc := upd s.pc t (if s.spin l > 1 then .unDec l (s.spin l) r else .unFree l r) },
          evLdSpin l (s.spin l))
  | .unDec l n r =>
    some ({ s with spin := upd s.spin l (n - 1), pc := upd s.pc t (.done r),
                   depth := upd2 s.depth t l (s.depth t l - 1) }, evStSpin l (n - 1))
  | .unFree l r =>
    some ({ s with owner := upd s.owner l none, pc := upd s.pc t (.unZero l r) }, evStOwner l none)
  | .unZero l r =>
    some ({ s with spin := upd s.spin l 0, pc := upd s.pc t (.done r),
                   depth := upd2 s.depth t l (s.depth t l - 1), holder := upd s.holder l none }, evStSpin l 0)
  | _ => none

def result (s : St) (t : Tid) : Option (St × GRet) :=
  match s.pc t with
  | .done r => some ({ s with pc := upd s.pc t .idle }, r)
  | _ => none

def model : Model St := ⟨invoke, step, result⟩

/-- The trace lines of a run, as the harness prints them. -/
def render (os : List (Tid × Obs)) : List String :=
  os.map fun (t, o) => match o with
    | .call op => s!"T {t} CALL {op.name} {op.args}"
    | .ev e => s!"T {t} A {e}"
    | .ret r => s!"T {t} RET {r}"

/-- The atomic events of a run, with the acting thread. -/
def events (os : List (Tid × Obs)) : List (Tid × Ev) :=
  os.filterMap fun (t, o) => match o with
    | .ev e => some (t, e)
    | _ => none

end CdsVerif.Algo.ReentrantSpin

/-
  Preservation of the LazyList invariant, and the effect on the abstract map: `find` / `contains`: the load `pCur->is_marked()` (linearization point "present" when the node with the key is unmarked).
-/
import CdsVerif.Algo.Lazy.Inv
namespace CdsVerif.Algo.Lazy
open CdsVerif.Machine CdsVerif.Spec CdsVerif.Lin
open CdsVerif.Algo.Michael (Chain insAfter mem_insAfter pairwise_insAfter LPok)

set_option maxHeartbeats 8000000 in
theorem sinvl_step_fChk {s s' : St} {t : Tid} {ev : Ev} {L : List Nat} {k : Int} {c : Nat}
    (h : SInvL s L) (hpc : s.pc t = .fChk k c) (hs : step s t = some (s', ev)) :
    ∃ L', SInvL s' L' ∧ StepEff s t s' L L' := by
  have hcur := h.lkCur t c (by simp [hpc, pcCur])
  have hnt' := h.nt t c (by simp [hpc, pcNT])
  have hpres := fun r => h.lp_present (c := c) (o := .fnd k) (r := r)
  pc_facts
  sinv_open h
  simp only [step, hpc] at hs
  simp at hs; obtain ⟨rfl, -⟩ := hs
  by_cases hm : s.mark c = false ∧ s.key c = k
  · have hcL : c ∈ L := hcur.2.resolve_right (by simp [hm.1])
    simp only [hm, and_self, if_true]
    step_close L
  · simp only [hm, if_false]
    step_close L

set_option maxHeartbeats 8000000 in
theorem sinvl_step_cChk {s s' : St} {t : Tid} {ev : Ev} {L : List Nat} {k : Int} {c : Nat}
    (h : SInvL s L) (hpc : s.pc t = .cChk k c) (hs : step s t = some (s', ev)) :
    ∃ L', SInvL s' L' ∧ StepEff s t s' L L' := by
  have hcur := h.lkCur t c (by simp [hpc, pcCur])
  have hnt' := h.nt t c (by simp [hpc, pcNT])
  have hpres := fun r => h.lp_present (c := c) (o := .con k) (r := r)
  pc_facts
  sinv_open h
  simp only [step, hpc] at hs
  simp at hs; obtain ⟨rfl, -⟩ := hs
  by_cases hm : s.mark c = false ∧ s.key c = k
  · have hcL : c ∈ L := hcur.2.resolve_right (by simp [hm.1])
    simp only [hm, and_self, if_true]
    step_close L
  · simp only [hm, if_false]
    step_close L

end CdsVerif.Algo.Lazy

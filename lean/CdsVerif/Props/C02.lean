/-
  C02 — dynamic hazard pointers never free an object a guard still protects: the scan DECISION (shared with the
  static implementation: what is handed to the disposer given the collected hazards), property theorems only.
  The interleaving-level theorems over the DHP protocol machine (extension blocks, retired-chain growth, every
  schedule) are in Props/C02DHP.lean.
-/
import CdsVerif.Algo.HP.Scan
namespace CdsVerif.Props.C02
open CdsVerif.Algo.HP

/-- Classic scan: nothing that equals a collected (non-null) hazard pointer is handed to the disposer. -/
theorem C02_scan_frees_no_hazard (hazards retired : List Ptr) :
    ∀ p ∈ (classicScan hazards retired).2, p ≠ 0 → p ∉ hazards := by
  intro p hp hne hmem
  simp only [classicScan, List.mem_filter, List.contains_eq_any_beq, Bool.not_eq_true', List.any_eq_false,
    beq_iff_eq, List.mem_filter, decide_eq_true_eq] at hp
  exact hp.2 p ⟨hmem, by simpa using hne⟩ rfl

/-- In-place scan (including the fall-back to the classic path when a retired address is odd). -/
theorem C02_inplace_scan_frees_no_hazard (hazards retired : List Ptr) :
    ∀ p ∈ (inplaceScan hazards retired).2, p ≠ 0 → p ∉ hazards := by
  intro p hp hne hmem
  unfold inplaceScan at hp
  split at hp
  · exact C02_scan_frees_no_hazard hazards retired p hp hne hmem
  · simp only [List.mem_filter, List.contains_eq_any_beq, Bool.not_eq_true', List.any_eq_false,
      beq_iff_eq, decide_eq_true_eq] at hp
    exact hp.2 p ⟨hmem, by simpa using hne⟩ rfl

/-- Non-vacuity and the shape of the defect the machinery found in the original source: a scan that tests
    the FIRST retired pointer for every entry frees a guarded object. -/
example : classicScan [184, 104] [120, 184, 152, 24] = ([184], [120, 152, 24]) := by decide
example :
    let buggy (hz rt : List Ptr) := if hz.contains (rt.headD 0) then (rt, ([] : List Ptr)) else (([] : List Ptr), rt)
    184 ∈ (buggy [184, 104] [120, 184, 152, 24]).2 := by decide

end CdsVerif.Props.C02

/-
  Atomic-step model of `cds::intrusive::SkipListSet<HP>` (cds/intrusive/impl/skip_list.h): the lock-free skip list —
  towers of marked next pointers.  Operations: `insert`, `erase( key, f )`, `find( key, f )`, `contains( key )`.

  Functions modelled, one step per atomic operation on shared memory:
    find_position( val, pos, bStopIfFound )       fLd1 fLd2 (GuardArray::protect of pPred->next(lvl): two loads, a mismatch
                                                  starts over), fSucc (pSucc = pCur->next(lvl).load()), fChk (pPred->next(lvl)
                                                  .load() == pCur ? … : retry); `goto retry` restarts from the head's top level
    help_remove( lvl, pPred, pCur )               hUnl (is_upper_level: m_nUnlink.load() == lvl + 1), hLd1 hLd2 (Guard::protect
                                                  of pCur->next(lvl): the failed validating load is the next candidate), hCas
                                                  (CAS pPred->next(lvl): pCur -> pSucc.ptr(), only if pSucc is marked), hSub
                                                  (level_unlinked(): m_nUnlink.fetch_sub( 1 ))
    renew_insert_position( val, pNode, pos )      the same traversal (`Why.renew`): no stop-if-found, gives up when it meets
                                                  pNode marked, returns `nCmp == 0`
    insert_at_position                            iClr (pNode->next(lvl).store( null ), lvl = 1 ..), iSt0, iCas0 (CAS of
                                                  pPrev[0]->next(0): LINEARIZATION POINT of a successful insert), then per upper level
                                                  iUpA (CAS pNode->next(lvl): p -> pSucc[lvl]; fails iff the level is marked: iSubFix =
                                                  level_unlinked( height - lvl ), then a cleaning find_position, return true) and
                                                  iUpB (CAS pPrev[lvl]->next(lvl): pSucc[lvl] -> pNode; on failure renew_insert_position)
    increase_height                               gHgt (m_nHeight.load()), gCas
    try_remove_at( pDel, pos )                    eLd / eMk per upper level, top-down (load; CAS-mark unless already marked),
                                                  e0Ld, e0Mk (CAS-mark of level 0; if it fails on a MARKED word the erase returns
                                                  false at once — "erase contention"), then the helping pass top-down: eH1 (load
                                                  pDel->next(lvl)), eH2 (CAS pPrev[lvl]->next(lvl): pDel -> pSucc.ptr()), eHSub
                                                  (level_unlinked()); the first failing CAS ends it with a cleaning find_position
    find_with_                                    find_fastpath: qHgt (m_nHeight.load()), qLd1 qLd2 (GuardArray::protect of
                                                  pPred->next(lvl)); a marked value read restarts (4 attempts) or falls back to the
                                                  slow path = find_position with bStopIfFound.  On a node with the key: qChk
                                                  (pCur->next(0).load(): marked -> slow path) — the repair b95a3c3; with
                                                  `Cfg.markTest = false` (the code before the repair) the fast path answers
                                                  "found" WITHOUT looking at pCur's own mark.

  Memory model: garbage-collected heap (hazard pointers, `retire`, back-off, statistics and the (empty) item counter are
  not modelled), sequentially consistent interleavings, no spurious CAS failure.  Node 0 is the head tower; items are
  1, 2, … in the order in which the inserts are invoked; the height of the j-th item is `c.ht j` clipped to
  `1 .. c.maxH` (ANY generator: `ht` is a parameter).  The towers are built by the client (`has_tower()`), the node
  builder of the harness neither allocates nor frees.

  Event rendering: cell ( a, l ) is `h.<l>` for the head, `n<a>.<l>` for item a; the unlink counter is `n<a>.u`;
  `hgt` is m_nHeight; pointer values are `null`, `h.0`, `n<a>.0`, with `|1` appended when marked.
-/
import CdsVerif.Base.Machine
namespace CdsVerif.Algo.SkipList
open CdsVerif.Machine CdsVerif.Spec

structure Cfg where
  maxH : Nat                 -- c_nMaxHeight (random_level_generator::c_nUpperBound)
  ht : Nat → Nat             -- height of the j-th item (clipped to 1 .. maxH)
  minH : Nat := 5            -- c_nMinHeight: initial value of m_nHeight
  markTest : Bool := true    -- find_fastpath tests the level-0 mark of a node with the key before answering "found"
                             -- (repair b95a3c3; `false` = the code before the repair)

def Cfg.height (c : Cfg) (j : Nat) : Nat := max 1 (min (c.ht j) c.maxH)

/-- Why a traversal (`find_position` / `renew_insert_position`) is running. -/
inductive Why
  | insS (n : Nat)                              -- insert: find_position( val, pos, true )
  | eraS (k : Int)                              -- erase: find_position( key, pos, false )
  | fndS (k : Int)                              -- find, slow path: find_position( key, pos, true )
  | conS (k : Int)                              -- contains, slow path
  | insFix (n : Nat)                            -- cleaning find_position inside insert_at_position; then `return true`
  | eraFix (k : Int) (v : Int)                  -- cleaning find_position inside try_remove_at; then `return true`
  | renew (n lvl : Nat) (p : Option Nat)        -- renew_insert_position for level `lvl` (p = the local `p` of the loop)
deriving DecidableEq, Repr

inductive Fop
  | fnd (k : Int)
  | con (k : Int)
deriving DecidableEq, Repr

inductive PC
  | idle
  | fLd1 (w : Why) (lvl pred : Nat) (nc : Bool) (pp : List Nat) (ps : List (Option Nat))
  | fLd2 (w : Why) (lvl pred : Nat) (nc : Bool) (pp : List Nat) (ps : List (Option Nat)) (x : Option Nat) (m : Bool)
  | fSucc (w : Why) (lvl pred cur : Nat) (nc : Bool) (pp : List Nat) (ps : List (Option Nat))
  | fChk (w : Why) (lvl pred cur : Nat) (sx : Option Nat) (sm : Bool) (nc : Bool) (pp : List Nat) (ps : List (Option Nat))
  | hUnl (w : Why) (lvl pred cur : Nat) (pp : List Nat) (ps : List (Option Nat))
  | hLd1 (w : Why) (lvl pred cur : Nat) (pp : List Nat) (ps : List (Option Nat))
  | hLd2 (w : Why) (lvl pred cur : Nat) (pp : List Nat) (ps : List (Option Nat)) (x : Option Nat) (m : Bool)
  | hCas (w : Why) (lvl pred cur : Nat) (pp : List Nat) (ps : List (Option Nat)) (x : Option Nat)
  | hSub (w : Why) (cur : Nat) (pp : List Nat) (ps : List (Option Nat))
  | iClr (n lvl : Nat) (pp : List Nat) (ps : List (Option Nat))
  | iSt0 (n : Nat) (pp : List Nat) (ps : List (Option Nat))
  | iCas0 (n : Nat) (pp : List Nat) (ps : List (Option Nat))
  | iUpA (n lvl : Nat) (p : Option Nat) (pp : List Nat) (ps : List (Option Nat))
  | iUpB (n lvl : Nat) (pp : List Nat) (ps : List (Option Nat))
  | iSubFix (n lvl : Nat) (pp : List Nat) (ps : List (Option Nat))
  | gHgt (n : Nat)
  | gCas (n cur : Nat)
  | eLd (k : Int) (d lvl : Nat) (pp : List Nat) (ps : List (Option Nat))
  | eMk (k : Int) (d lvl : Nat) (sx : Option Nat) (pp : List Nat) (ps : List (Option Nat))
  | e0Ld (k : Int) (d : Nat) (pp : List Nat) (ps : List (Option Nat))
  | e0Mk (k : Int) (d : Nat) (p : Option Nat) (pp : List Nat) (ps : List (Option Nat))
  | eH1 (k : Int) (d lvl : Nat) (pp : List Nat) (ps : List (Option Nat))
  | eH2 (k : Int) (d lvl : Nat) (x : Option Nat) (pp : List Nat) (ps : List (Option Nat))
  | eHSub (k : Int) (d lvl : Nat) (pp : List Nat) (ps : List (Option Nat))
  | qHgt (o : Fop) (att : Nat)
  | qLd1 (o : Fop) (lvl pred att : Nat)
  | qLd2 (o : Fop) (lvl pred att : Nat) (x : Option Nat) (m : Bool)
  | qChk (o : Fop) (cur : Nat)
  | done (r : GRet)
deriving DecidableEq, Repr

structure St where
  next : Nat → Nat → Option Nat   -- pointer part of cell ( node, level )
  mark : Nat → Nat → Bool         -- mark bit of cell ( node, level )
  unl : Nat → Nat                 -- m_nUnlink
  hgt : Nat                       -- m_nHeight
  key : Nat → Int
  val : Nat → Int
  ht : Nat → Nat                  -- tower height
  cnt : Nat                       -- next fresh item
  pc : Tid → PC

def init (c : Cfg) : St :=
  ⟨fun _ _ => none, fun _ _ => false, fun _ => 1, c.minH, fun _ => 0, fun _ => 0, fun _ => 1, 1, fun _ => .idle⟩

/-! ### Event rendering -/

def cell (a l : Nat) : String := if a = 0 then s!"h.{l}" else s!"n{a}.{l}"
def uloc (a : Nat) : String := s!"n{a}.u"
def ptr : Option Nat → String
  | none => "null"
  | some a => cell a 0
def mptr (p : Option Nat) (m : Bool) : String := if m then ptr p ++ "|1" else ptr p

def evLd (a l : Nat) (p : Option Nat) (m : Bool) : Ev := ⟨"ld", cell a l, mptr p m, ""⟩
def evSt (a l : Nat) (p : Option Nat) (m : Bool) : Ev := ⟨"st", cell a l, mptr p m, ""⟩
/-- CAS on cell ( a, l ): expected ( ep, em ), desired ( dp, dm ), current ( cp, cm ). -/
def evCas (a l : Nat) (cp : Option Nat) (cm : Bool) (ep : Option Nat) (em : Bool) (dp : Option Nat) (dm : Bool) : Ev :=
  if cp = ep ∧ cm = em then ⟨"cas+", cell a l, mptr cp cm, mptr dp dm⟩ else ⟨"cas-", cell a l, mptr cp cm, mptr ep em⟩
def evLdN (w : String) (v : Nat) : Ev := ⟨"ld", w, toString v, ""⟩
def evSubN (w : String) (old arg : Nat) : Ev := ⟨"sub", w, toString old, toString arg⟩
def evCasN (w : String) (cur exp new : Nat) : Ev :=
  if cur = exp then ⟨"cas+", w, toString cur, toString new⟩ else ⟨"cas-", w, toString cur, toString exp⟩

/-- `unsigned int` subtraction. -/
def subW (a b : Nat) : Nat := (a + 4294967296 - b % 4294967296) % 4294967296

/-! ### Local decisions -/

def upd2' {α : Type} (f : Nat → Nat → α) (i j : Nat) (v : α) : Nat → Nat → α :=
  fun i' j' => if i' = i ∧ j' = j then v else f i' j'

def wkey (key : Nat → Int) : Why → Int
  | .insS n => key n
  | .eraS k => k
  | .fndS k => k
  | .conS k => k
  | .insFix n => key n
  | .eraFix k _ => k
  | .renew n _ _ => key n

def wstop : Why → Bool
  | .insS _ => true
  | .fndS _ => true
  | .conS _ => true
  | _ => false

def fkey : Fop → Int
  | .fnd k => k
  | .con k => k

/-- `goto retry`. -/
def retry (c : Cfg) (w : Why) (pp : List Nat) (ps : List (Option Nat)) : PC := .fLd1 w (c.maxH - 1) 0 false pp ps

/-- Start of `insert_at_position`. -/
def startLink (ht : Nat → Nat) (n : Nat) (pp : List Nat) (ps : List (Option Nat)) : PC :=
  if 1 < ht n then .iClr n 1 pp ps else .iSt0 n pp ps

/-- Start of `try_remove_at`. -/
def startRemove (ht : Nat → Nat) (k : Int) (d : Nat) (pp : List Nat) (ps : List (Option Nat)) : PC :=
  if 1 < ht d then .eLd k d (ht d - 1) pp ps else .e0Ld k d pp ps

/-- The traversal has ended with `pCur = cur` and `nCmp == 0` iff `nc`. -/
def finish (val : Nat → Int) (ht : Nat → Nat) (w : Why) (nc : Bool) (cur : Option Nat) (pp : List Nat)
    (ps : List (Option Nat)) : PC :=
  match w with
  | .insS n => if cur.isSome && nc then .done [0] else startLink ht n pp ps
  | .eraS k =>
    match cur with
    | some d => if nc then startRemove ht k d pp ps else .done [0]
    | none => .done [0]
  | .fndS _ =>
    match cur with
    | some d => if nc then .done [1, val d] else .done [0]
    | none => .done [0]
  | .conS _ => if cur.isSome && nc then .done [1] else .done [0]
  | .insFix n => .gHgt n
  | .eraFix _ v => .done [1, v]
  | .renew n lvl p => if nc then .iUpA n lvl p pp ps else .iSubFix n lvl pp ps

/-- A level of the traversal is finished with `( pred, cur )`. -/
def levelDone (val : Nat → Int) (ht : Nat → Nat) (w : Why) (lvl pred : Nat) (cur : Option Nat) (nc : Bool)
    (pp : List Nat) (ps : List (Option Nat)) : PC :=
  if lvl = 0 then finish val ht w nc cur (pp.set 0 pred) (ps.set 0 cur)
  else .fLd1 w (lvl - 1) pred nc (pp.set lvl pred) (ps.set lvl cur)

/-- After the validation of `pPred->next(lvl)` has succeeded. -/
def afterChk (_c : Cfg) (key val : Nat → Int) (ht : Nat → Nat) (w : Why) (lvl pred cur : Nat) (sm : Bool) (pp : List Nat)
    (ps : List (Option Nat)) : PC :=
  if sm then
    (match w with
      | .renew n l _ => if cur = n then .iSubFix n l pp ps else .hUnl w lvl pred cur pp ps
      | _ => .hUnl w lvl pred cur pp ps)
  else if key cur < wkey key w then .fLd1 w lvl cur false pp ps
  else if key cur = wkey key w ∧ wstop w = true then finish val ht w true (some cur) pp ps
  else levelDone val ht w lvl pred (some cur) (decide (key cur = wkey key w)) pp ps

/-- The upper levels of the new node are linked one by one. -/
def nextUp (ht : Nat → Nat) (n lvl : Nat) (pp : List Nat) (ps : List (Option Nat)) : PC :=
  if lvl + 1 < ht n then .iUpA n (lvl + 1) none pp ps else .gHgt n

/-- `try_remove_at`: the next upper level to mark, or level 0. -/
def nextMark (k : Int) (d lvl : Nat) (pp : List Nat) (ps : List (Option Nat)) : PC :=
  if 1 < lvl then .eLd k d (lvl - 1) pp ps else .e0Ld k d pp ps

/-- The fast path goes down one level, or ends with "not found". -/
def qDown (o : Fop) (lvl pred att : Nat) : PC :=
  if lvl = 0 then .done [0] else .qLd1 o (lvl - 1) pred att

def fslow (c : Cfg) (o : Fop) : PC :=
  match o with
  | .fnd k => retry c (.fndS k) (List.replicate c.maxH 0) (List.replicate c.maxH none)
  | .con k => retry c (.conS k) (List.replicate c.maxH 0) (List.replicate c.maxH none)

def ffound (val : Nat → Int) (o : Fop) (x : Nat) : PC :=
  match o with
  | .fnd _ => .done [1, val x]
  | .con _ => .done [1]

/-- After `protect( pPred->next(lvl) )` of `find_position`. -/
def afterLd2 (c : Cfg) (val : Nat → Int) (ht : Nat → Nat) (w : Why) (lvl pred : Nat) (nc : Bool) (pp : List Nat)
    (ps : List (Option Nat)) (x : Option Nat) (m : Bool) : PC :=
  if m then retry c w pp ps
  else match x with
    | none => levelDone val ht w lvl pred none nc pp ps
    | some cur => .fSucc w lvl pred cur nc pp ps

/-- After `protect( pPred->next(lvl) )` of `find_fastpath`. -/
def afterQ (c : Cfg) (key val : Nat → Int) (o : Fop) (lvl pred att : Nat) (x : Option Nat) (m : Bool) : PC :=
  if m then (if att + 1 < 4 then .qHgt o (att + 1) else fslow c o)
  else match x with
    | none => qDown o lvl pred att
    | some cur =>
      if key cur < fkey o then .qLd1 o lvl cur att
      else if key cur = fkey o then (if c.markTest then .qChk o cur else ffound val o cur)
      else qDown o lvl pred att

def invoke (c : Cfg) (s : St) (t : Tid) (op : GOp) : Option St :=
  match s.pc t, op.name, op.args with
  | .idle, "insert", [k, v] =>
    some { s with key := upd s.key s.cnt k, val := upd s.val s.cnt v, ht := upd s.ht s.cnt (c.height s.cnt),
                  unl := upd s.unl s.cnt (c.height s.cnt), cnt := s.cnt + 1,
                  pc := upd s.pc t (retry c (.insS s.cnt) (List.replicate c.maxH 0) (List.replicate c.maxH none)) }
  | .idle, "erase", [k] =>
    some { s with pc := upd s.pc t (retry c (.eraS k) (List.replicate c.maxH 0) (List.replicate c.maxH none)) }
  | .idle, "find", [k] => some { s with pc := upd s.pc t (.qHgt (.fnd k) 0) }
  | .idle, "contains", [k] => some { s with pc := upd s.pc t (.qHgt (.con k) 0) }
  | _, _, _ => none

def step (c : Cfg) (s : St) (t : Tid) : Option (St × Ev) :=
  match s.pc t with
  | .fLd1 w lvl pred nc pp ps =>
    some ({ s with pc := upd s.pc t (.fLd2 w lvl pred nc pp ps (s.next pred lvl) (s.mark pred lvl)) },
          evLd pred lvl (s.next pred lvl) (s.mark pred lvl))
  | .fLd2 w lvl pred nc pp ps x m =>
    if s.next pred lvl = x ∧ s.mark pred lvl = m then
      some ({ s with pc := upd s.pc t (afterLd2 c s.val s.ht w lvl pred nc pp ps x m) },
            evLd pred lvl (s.next pred lvl) (s.mark pred lvl))
    else
      some ({ s with pc := upd s.pc t (.fLd1 w lvl pred nc pp ps) }, evLd pred lvl (s.next pred lvl) (s.mark pred lvl))
  | .fSucc w lvl pred cur nc pp ps =>
    some ({ s with pc := upd s.pc t (.fChk w lvl pred cur (s.next cur lvl) (s.mark cur lvl) nc pp ps) },
          evLd cur lvl (s.next cur lvl) (s.mark cur lvl))
  | .fChk w lvl pred cur _ sm _ pp ps =>
    if s.next pred lvl = some cur ∧ s.mark pred lvl = false then
      some ({ s with pc := upd s.pc t (afterChk c s.key s.val s.ht w lvl pred cur sm pp ps) },
            evLd pred lvl (s.next pred lvl) (s.mark pred lvl))
    else
      some ({ s with pc := upd s.pc t (retry c w pp ps) }, evLd pred lvl (s.next pred lvl) (s.mark pred lvl))
  | .hUnl w lvl pred cur pp ps =>
    some ({ s with pc := upd s.pc t (if s.unl cur = lvl + 1 then .hLd1 w lvl pred cur pp ps else retry c w pp ps) },
          evLdN (uloc cur) (s.unl cur))
  | .hLd1 w lvl pred cur pp ps =>
    some ({ s with pc := upd s.pc t (.hLd2 w lvl pred cur pp ps (s.next cur lvl) (s.mark cur lvl)) },
          evLd cur lvl (s.next cur lvl) (s.mark cur lvl))
  | .hLd2 w lvl pred cur pp ps x m =>
    if s.next cur lvl = x ∧ s.mark cur lvl = m then
      some ({ s with pc := upd s.pc t (if m then .hCas w lvl pred cur pp ps x else retry c w pp ps) },
            evLd cur lvl (s.next cur lvl) (s.mark cur lvl))
    else
      some ({ s with pc := upd s.pc t (.hLd2 w lvl pred cur pp ps (s.next cur lvl) (s.mark cur lvl)) },
            evLd cur lvl (s.next cur lvl) (s.mark cur lvl))
  | .hCas w lvl pred cur pp ps x =>
    if s.next pred lvl = some cur ∧ s.mark pred lvl = false then
      some ({ s with next := upd2' s.next pred lvl x, pc := upd s.pc t (.hSub w cur pp ps) },
            evCas pred lvl (s.next pred lvl) (s.mark pred lvl) (some cur) false x false)
    else
      some ({ s with pc := upd s.pc t (retry c w pp ps) },
            evCas pred lvl (s.next pred lvl) (s.mark pred lvl) (some cur) false x false)
  | .hSub w cur pp ps =>
    some ({ s with unl := upd s.unl cur (subW (s.unl cur) 1), pc := upd s.pc t (retry c w pp ps) },
          evSubN (uloc cur) (s.unl cur) 1)
  | .iClr n lvl pp ps =>
    some ({ s with next := upd2' s.next n lvl none, mark := upd2' s.mark n lvl false,
                   pc := upd s.pc t (if lvl + 1 < s.ht n then .iClr n (lvl + 1) pp ps else .iSt0 n pp ps) },
          evSt n lvl none false)
  | .iSt0 n pp ps =>
    some ({ s with next := upd2' s.next n 0 (ps.getD 0 none), mark := upd2' s.mark n 0 false,
                   pc := upd s.pc t (.iCas0 n pp ps) }, evSt n 0 (ps.getD 0 none) false)
  | .iCas0 n pp ps =>
    if s.next (pp.getD 0 0) 0 = ps.getD 0 none ∧ s.mark (pp.getD 0 0) 0 = false then
      some ({ s with next := upd2' s.next (pp.getD 0 0) 0 (some n), pc := upd s.pc t (nextUp s.ht n 0 pp ps) },
            evCas (pp.getD 0 0) 0 (s.next (pp.getD 0 0) 0) (s.mark (pp.getD 0 0) 0) (ps.getD 0 none) false (some n) false)
    else
      some ({ s with pc := upd s.pc t (retry c (.insS n) pp ps) },
            evCas (pp.getD 0 0) 0 (s.next (pp.getD 0 0) 0) (s.mark (pp.getD 0 0) 0) (ps.getD 0 none) false (some n) false)
  | .iUpA n lvl p pp ps =>
    if s.next n lvl = p ∧ s.mark n lvl = false then
      some ({ s with next := upd2' s.next n lvl (ps.getD lvl none), pc := upd s.pc t (.iUpB n lvl pp ps) },
            evCas n lvl (s.next n lvl) (s.mark n lvl) p false (ps.getD lvl none) false)
    else
      some ({ s with pc := upd s.pc t (.iSubFix n lvl pp ps) },
            evCas n lvl (s.next n lvl) (s.mark n lvl) p false (ps.getD lvl none) false)
  | .iUpB n lvl pp ps =>
    if s.next (pp.getD lvl 0) lvl = ps.getD lvl none ∧ s.mark (pp.getD lvl 0) lvl = false then
      some ({ s with next := upd2' s.next (pp.getD lvl 0) lvl (some n), pc := upd s.pc t (nextUp s.ht n lvl pp ps) },
            evCas (pp.getD lvl 0) lvl (s.next (pp.getD lvl 0) lvl) (s.mark (pp.getD lvl 0) lvl) (ps.getD lvl none) false
              (some n) false)
    else
      some ({ s with pc := upd s.pc t (retry c (.renew n lvl (ps.getD lvl none)) pp ps) },
            evCas (pp.getD lvl 0) lvl (s.next (pp.getD lvl 0) lvl) (s.mark (pp.getD lvl 0) lvl) (ps.getD lvl none) false
              (some n) false)
  | .iSubFix n lvl pp ps =>
    some ({ s with unl := upd s.unl n (subW (s.unl n) (s.ht n - lvl)), pc := upd s.pc t (retry c (.insFix n) pp ps) },
          evSubN (uloc n) (s.unl n) (s.ht n - lvl))
  | .gHgt n =>
    some ({ s with pc := upd s.pc t (if s.hgt < s.ht n then .gCas n s.hgt else .done [1]) }, evLdN "hgt" s.hgt)
  | .gCas n cur =>
    some ({ s with hgt := if s.hgt = cur then s.ht n else s.hgt, pc := upd s.pc t (.done [1]) },
          evCasN "hgt" s.hgt cur (s.ht n))
  | .eLd k d lvl pp ps =>
    some ({ s with pc := upd s.pc t (if s.mark d lvl then nextMark k d lvl pp ps else .eMk k d lvl (s.next d lvl) pp ps) },
          evLd d lvl (s.next d lvl) (s.mark d lvl))
  | .eMk k d lvl sx pp ps =>
    if s.next d lvl = sx ∧ s.mark d lvl = false then
      some ({ s with mark := upd2' s.mark d lvl true, pc := upd s.pc t (nextMark k d lvl pp ps) },
            evCas d lvl (s.next d lvl) (s.mark d lvl) sx false sx true)
    else
      some ({ s with pc := upd s.pc t (if s.mark d lvl then nextMark k d lvl pp ps else .eMk k d lvl (s.next d lvl) pp ps) },
            evCas d lvl (s.next d lvl) (s.mark d lvl) sx false sx true)
  | .e0Ld k d pp ps =>
    some ({ s with pc := upd s.pc t (.e0Mk k d (s.next d 0) pp ps) }, evLd d 0 (s.next d 0) (s.mark d 0))
  | .e0Mk k d p pp ps =>
    if s.next d 0 = p ∧ s.mark d 0 = false then
      some ({ s with mark := upd2' s.mark d 0 true, pc := upd s.pc t (.eH1 k d (s.ht d - 1) pp ps) },
            evCas d 0 (s.next d 0) (s.mark d 0) p false p true)
    else
      some ({ s with pc := upd s.pc t (if s.mark d 0 then .done [0] else .e0Mk k d (s.next d 0) pp ps) },
            evCas d 0 (s.next d 0) (s.mark d 0) p false p true)
  | .eH1 k d lvl pp ps =>
    some ({ s with pc := upd s.pc t (.eH2 k d lvl (s.next d lvl) pp ps) }, evLd d lvl (s.next d lvl) (s.mark d lvl))
  | .eH2 k d lvl x pp ps =>
    if s.next (pp.getD lvl 0) lvl = some d ∧ s.mark (pp.getD lvl 0) lvl = false then
      some ({ s with next := upd2' s.next (pp.getD lvl 0) lvl x, pc := upd s.pc t (.eHSub k d lvl pp ps) },
            evCas (pp.getD lvl 0) lvl (s.next (pp.getD lvl 0) lvl) (s.mark (pp.getD lvl 0) lvl) (some d) false x false)
    else
      some ({ s with pc := upd s.pc t (retry c (.eraFix k (s.val d)) pp ps) },
            evCas (pp.getD lvl 0) lvl (s.next (pp.getD lvl 0) lvl) (s.mark (pp.getD lvl 0) lvl) (some d) false x false)
  | .eHSub k d lvl pp ps =>
    some ({ s with unl := upd s.unl d (subW (s.unl d) 1),
                   pc := upd s.pc t (if lvl = 0 then .done [1, s.val d] else .eH1 k d (lvl - 1) pp ps) },
          evSubN (uloc d) (s.unl d) 1)
  | .qHgt o att => some ({ s with pc := upd s.pc t (.qLd1 o (s.hgt - 1) 0 att) }, evLdN "hgt" s.hgt)
  | .qLd1 o lvl pred att =>
    some ({ s with pc := upd s.pc t (.qLd2 o lvl pred att (s.next pred lvl) (s.mark pred lvl)) },
          evLd pred lvl (s.next pred lvl) (s.mark pred lvl))
  | .qLd2 o lvl pred att x m =>
    if s.next pred lvl = x ∧ s.mark pred lvl = m then
      some ({ s with pc := upd s.pc t (afterQ c s.key s.val o lvl pred att x m) },
            evLd pred lvl (s.next pred lvl) (s.mark pred lvl))
    else
      some ({ s with pc := upd s.pc t (.qLd1 o lvl pred att) }, evLd pred lvl (s.next pred lvl) (s.mark pred lvl))
  | .qChk o cur =>
    some ({ s with pc := upd s.pc t (if s.mark cur 0 then fslow c o else ffound s.val o cur) },
          evLd cur 0 (s.next cur 0) (s.mark cur 0))
  | .idle => none
  | .done _ => none

def result (s : St) (t : Tid) : Option (St × GRet) :=
  match s.pc t with
  | .done r => some ({ s with pc := upd s.pc t .idle }, r)
  | _ => none

def model (c : Cfg) : Model St := ⟨invoke c, step c, result⟩

def render (os : List (Tid × Obs)) : List String :=
  os.map fun (t, o) => match o with
    | .call op => s!"T {t} C {op.name} {op.args}"
    | .ev e => s!"T {t} A {e}"
    | .ret r => s!"T {t} R {r}"

/-! ### Tie A: configuration from the case header (`hts=h1.h2.…`; maxH = 3 in the harness) -/

def cfgOf (ws : List String) : Cfg :=
  let hs : List Nat := match ws.find? (·.startsWith "hts=") with
    | some w => ((w.drop 4).toString.splitOn ".").map (fun x => x.toNat?.getD 1)
    | none => []
  { maxH := 3, ht := fun j => hs.getD (j - 1) 1, markTest := !(ws.any (· == "fastmark=0")) }

structure RSt where
  c : Cfg
  s : St

def replayModel : Model RSt where
  invoke r t op := (invoke r.c r.s t op).map (fun s' => ⟨r.c, s'⟩)
  step r t := (step r.c r.s t).map (fun p => (⟨r.c, p.1⟩, p.2))
  result r t := (result r.s t).map (fun p => (⟨r.c, p.1⟩, p.2))

def replayInit (ws : List String) : RSt := ⟨cfgOf ws, init (cfgOf ws)⟩

end CdsVerif.Algo.SkipList

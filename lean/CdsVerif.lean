import CdsVerif.Base.Lin
import CdsVerif.Base.Spec

/-
  Queue linearizability toolkit, part 1 (independent of any algorithm): the history of a run of a `Machine.Model`,
  the ghost log of linearized operations with tentative entries, sequential replay against `Spec.fifo`, and
  sequential facts about `fifo` (no invention, no duplication).

  This is the algorithm-independent half of `Algo/MSQueue/Lin.lean` (copied, so that the developments of the other
  C06 queues do not depend on the MSQueue files); part 2 is `Algo/QueueLin/Ghost.lean`.
-/
import CdsVerif.Base.Machine
import CdsVerif.Base.Lin
namespace CdsVerif.Algo.QueueLin
open CdsVerif.Machine CdsVerif.Spec CdsVerif.Lin

theorem fifo_enq (q : List Int) (v : Int) : fifo.next q ⟨"enq", [v]⟩ [1] = some (q ++ [v]) := by
  simp [fifo, detSpec, fifoStep]
theorem fifo_deq_some (q : List Int) (v : Int) : fifo.next (v :: q) ⟨"deq", []⟩ [1, v] = some q := by
  simp [fifo, detSpec, fifoStep]
theorem fifo_deq_none : fifo.next [] ⟨"deq", []⟩ [0] = some [] := by
  simp [fifo, detSpec, fifoStep]

/-! ### The history of a run -/

/-- Per thread: the operation in progress and the index of its `call` observation. -/
abbrev Pend := Tid → Option (GOp × Nat)

/-- Scan the observations (the head has index `i`): every `ret` closes the operation its thread has in progress. -/
def histAux : Nat → Pend → List (Tid × Obs) → List (OpRec GOp GRet)
  | _, _, [] => []
  | i, pend, (t, .call op) :: os => histAux (i + 1) (upd pend t (some (op, i))) os
  | i, pend, (_, .ev _) :: os => histAux (i + 1) pend os
  | i, pend, (t, .ret r) :: os =>
    match pend t with
    | some (op, k) => ⟨t, op, r, k, i⟩ :: histAux (i + 1) (upd pend t none) os
    | none => histAux (i + 1) pend os

/-- The operations still in progress after the observations. -/
def pendAux : Nat → Pend → List (Tid × Obs) → Pend
  | _, pend, [] => pend
  | i, pend, (t, .call op) :: os => pendAux (i + 1) (upd pend t (some (op, i))) os
  | i, pend, (_, .ev _) :: os => pendAux (i + 1) pend os
  | i, pend, (t, .ret _) :: os =>
    match pend t with
    | some _ => pendAux (i + 1) (upd pend t none) os
    | none => pendAux (i + 1) pend os

/-- The complete history of a run: one record per operation that has both its `call` and its `ret` observation,
    `inv` / `res` = the indices of these observations in `os`.  Operations pending at the end are dropped. -/
def historyOf (os : List (Tid × Obs)) : List (OpRec GOp GRet) := histAux 0 (fun _ => none) os

/-- The operations pending at the end of a run: thread ↦ (operation, index of its `call`). -/
def pendingOf (os : List (Tid × Obs)) : Pend := pendAux 0 (fun _ => none) os

/-! ### Ghost log -/

/-- A log entry: an operation that has passed its linearization point; `res = none` while it has not returned. -/
structure LE where
  tid : Nat
  op : GOp
  ret : GRet
  inv : Nat
  res : Option Nat
deriving DecidableEq, Repr

/-- Thread `t` returns at time `c`. -/
def LE.close (t c : Nat) (e : LE) : LE := if e.tid = t ∧ e.res = none then { e with res := some c } else e
/-- The history record of an entry; an entry that has not returned gets the response time `c`. -/
def LE.fin (c : Nat) (e : LE) : OpRec GOp GRet := ⟨e.tid, e.op, e.ret, e.inv, e.res.getD c⟩
def LE.done? (e : LE) : Option (OpRec GOp GRet) := e.res.map (fun r => ⟨e.tid, e.op, e.ret, e.inv, r⟩)

def completed (log : List LE) : List (OpRec GOp GRet) := log.filterMap LE.done?
def openOf (t : Nat) (log : List LE) : List LE := log.filter (fun e => decide (e.tid = t ∧ e.res = none))

/-- Sequential replay of the logged operations and results. -/
def runSpec : List Int → List LE → Option (List Int)
  | st, [] => some st
  | st, e :: l => (fifo.next st e.op e.ret).bind (fun st' => runSpec st' l)

theorem runSpec_append (l1 l2 : List LE) : ∀ st, runSpec st (l1 ++ l2) = (runSpec st l1).bind (fun st' => runSpec st' l2) := by
  induction l1 with
  | nil => intro st; simp [runSpec]
  | cons e l ih =>
    intro st
    simp only [List.cons_append, runSpec]
    cases fifo.next st e.op e.ret with
    | none => simp
    | some st1 => simp [ih]

theorem runSpec_close (t c : Nat) (l : List LE) : ∀ st, runSpec st (l.map (LE.close t c)) = runSpec st l := by
  induction l with
  | nil => intro st; rfl
  | cons e l ih =>
    intro st
    have h1 : (LE.close t c e).op = e.op := by unfold LE.close; split <;> rfl
    have h2 : (LE.close t c e).ret = e.ret := by unfold LE.close; split <;> rfl
    simp only [List.map_cons, runSpec, h1, h2, ih]

theorem legal_of_runSpec (c : Nat) (l : List LE) : ∀ st st', runSpec st l = some st' → Legal fifo st (l.map (LE.fin c)) := by
  induction l with
  | nil => intro st st' _; trivial
  | cons e l ih =>
    intro st st' h
    simp only [runSpec] at h
    cases hn : fifo.next st e.op e.ret with
    | none => simp [hn] at h
    | some st1 =>
      simp only [hn, Option.bind_some] at h
      exact ⟨st1, hn, ih st1 st' h⟩

theorem openOf_append (t : Nat) (l1 l2 : List LE) : openOf t (l1 ++ l2) = openOf t l1 ++ openOf t l2 := by
  simp [openOf]

theorem openOf_close_same (t c : Nat) (l : List LE) : openOf t (l.map (LE.close t c)) = [] := by
  induction l with
  | nil => rfl
  | cons e l ih =>
    simp only [openOf, List.map_cons, List.filter_cons] at ih ⊢
    rw [ih]
    unfold LE.close
    split <;> simp_all

theorem openOf_close_other (t t2 c : Nat) (h : t2 ≠ t) (l : List LE) :
    openOf t2 (l.map (LE.close t c)) = openOf t2 l := by
  induction l with
  | nil => rfl
  | cons e l ih =>
    simp only [openOf, List.map_cons, List.filter_cons] at ih ⊢
    rw [ih]
    unfold LE.close
    split
    next hc => have : e.tid ≠ t2 := by omega
               simp [this]
    next => rfl

theorem completed_close (t c : Nat) (l : List LE) :
    (completed (l.map (LE.close t c))).Perm (completed l ++ (openOf t l).map (LE.fin c)) := by
  induction l with
  | nil => exact List.Perm.refl _
  | cons e l ih =>
    simp only [completed, openOf, List.map_cons, List.filterMap_cons, List.filter_cons] at ih ⊢
    by_cases hc : e.tid = t ∧ e.res = none
    · have h1 : (LE.close t c e).done? = some (LE.fin c e) := by
        simp [LE.close, hc, LE.done?, LE.fin]
      have h2 : e.done? = none := by simp [LE.done?, hc.2]
      simp only [h1, h2, hc, and_self, decide_true, if_true, List.map_cons]
      exact (List.Perm.cons _ ih).trans List.perm_middle.symm
    · have h1 : LE.close t c e = e := by simp [LE.close, hc]
      simp only [h1, hc, decide_false, Bool.false_eq_true, if_false]
      cases e.done? with
      | none => exact ih
      | some r => exact List.Perm.cons _ ih

/-! ### Withdrawing tentative entries -/

/-- Only an empty dequeue answers `[0]`, and it does not change the queue. -/
theorem fifo_ret0 {q q' : List Int} {op : GOp} (h : fifo.next q op [0] = some q') : q' = q := by
  obtain ⟨name, args⟩ := op
  simp only [fifo, detSpec] at h
  cases hs : fifoStep q ⟨name, args⟩ with
  | none => simp [hs] at h
  | some p =>
    obtain ⟨q1, r1⟩ := p
    simp [hs] at h
    obtain ⟨hr, rfl⟩ := h
    unfold fifoStep at hs
    split at hs
    next v hn ha => simp at hs; rw [← hs.2] at hr; simp at hr
    next hn ha =>
      split at hs
      · simp at hs; exact hs.1
      · simp at hs; rw [← hs.2] at hr; simp at hr
    next => simp at hs

/-- Entries answering `[0]` may be removed from a legal log. -/
theorem runSpec_filter (P : LE → Bool) (l : List LE) :
    ∀ st st', (∀ e ∈ l, P e = false → e.ret = [0]) → runSpec st l = some st' → runSpec st (l.filter P) = some st' := by
  induction l with
  | nil => intro st st' _ h; simpa [runSpec] using h
  | cons e l ih =>
    intro st st' hP h
    simp only [runSpec] at h
    cases hn : fifo.next st e.op e.ret with
    | none => simp [hn] at h
    | some st1 =>
      simp only [hn, Option.bind_some] at h
      have hP' : ∀ e' ∈ l, P e' = false → e'.ret = [0] := fun e' he' => hP e' (List.mem_cons_of_mem _ he')
      simp only [List.filter_cons]
      cases hp : P e with
      | true =>
        simp only [if_true, runSpec, hn, Option.bind_some]
        exact ih st1 st' hP' h
      | false =>
        have hr := hP e (by simp) hp
        rw [hr] at hn
        have := fifo_ret0 hn
        subst this
        simpa using ih st1 st' hP' h

/-- Remove the entries of thread `t` that have not returned (its tentative entry). -/
def dropOpen (t : Nat) (log : List LE) : List LE := log.filter (fun e => !decide (e.tid = t ∧ e.res = none))

theorem dropOpen_sublist (t : Nat) (log : List LE) : (dropOpen t log).Sublist log := List.filter_sublist

theorem mem_dropOpen {t : Nat} {log : List LE} {e : LE} (h : e ∈ dropOpen t log) : e ∈ log :=
  (dropOpen_sublist t log).subset h

theorem openOf_dropOpen_same (t : Nat) (l : List LE) : openOf t (dropOpen t l) = [] := by
  simp only [openOf, dropOpen, List.filter_filter]
  apply List.filter_eq_nil_iff.mpr
  intro e _
  by_cases hc : e.tid = t ∧ e.res = none <;> simp [hc]

theorem openOf_dropOpen_other (t t2 : Nat) (h : t2 ≠ t) (l : List LE) : openOf t2 (dropOpen t l) = openOf t2 l := by
  simp only [openOf, dropOpen, List.filter_filter]
  apply List.filter_congr
  intro e _
  by_cases hc : e.tid = t2 ∧ e.res = none
  · simp [hc, h]
  · simp [hc]

theorem completed_filter_open (P : LE → Bool) (l : List LE) (hP : ∀ e ∈ l, P e = false → e.res = none) :
    completed (l.filter P) = completed l := by
  induction l with
  | nil => rfl
  | cons e l ih =>
    have hP' : ∀ e' ∈ l, P e' = false → e'.res = none := fun e' he' => hP e' (List.mem_cons_of_mem _ he')
    simp only [completed, List.filter_cons] at ih ⊢
    cases hp : P e with
    | true => simp only [if_true, List.filterMap_cons]; rw [ih hP']
    | false =>
      have hr := hP e (by simp) hp
      simp only [Bool.false_eq_true, if_false, List.filterMap_cons, LE.done?, hr, Option.map_none]
      exact ih hP'

theorem completed_dropOpen (t : Nat) (l : List LE) : completed (dropOpen t l) = completed l := by
  apply completed_filter_open
  intro e _ h
  by_cases hc : e.tid = t ∧ e.res = none
  · exact hc.2
  · simp [hc] at h

theorem runSpec_dropOpen (t : Nat) (l : List LE) (st st' : List Int) (h0 : ∀ e ∈ openOf t l, e.ret = [0])
    (h : runSpec st l = some st') : runSpec st (dropOpen t l) = some st' := by
  apply runSpec_filter _ _ _ _ _ h
  intro e he hp
  apply h0
  simp only [openOf, List.mem_filter]
  refine ⟨he, ?_⟩
  by_cases hc : e.tid = t ∧ e.res = none
  · simp [hc]
  · simp [hc] at hp


/-! ### The instant at which an empty dequeue saw the empty queue -/

/-- Only an empty dequeue on the empty queue answers `[0]`. -/
theorem fifo_ret0_empty {q q' : List Int} {op : GOp} (h : fifo.next q op [0] = some q') : q = [] := by
  obtain ⟨name, args⟩ := op
  simp only [fifo, detSpec] at h
  cases hs : fifoStep q ⟨name, args⟩ with
  | none => simp [hs] at h
  | some p =>
    obtain ⟨q1, r1⟩ := p
    simp [hs] at h
    obtain ⟨hr, rfl⟩ := h
    unfold fifoStep at hs
    split at hs
    next v hn ha => simp at hs; rw [← hs.2] at hr; simp at hr
    next hn ha =>
      split at hs
      · rfl
      · simp at hs; rw [← hs.2] at hr; simp at hr
    next => simp at hs

theorem getElem?_snoc_of_some {α : Type} {l : List α} {j : Nat} {x y : α} (h : l[j]? = some x) :
    (l ++ [y])[j]? = some x := by
  have hj : j < l.length := by
    cases hlt : decide (j < l.length) with
    | true => simpa using hlt
    | false => simp at hlt; rw [List.getElem?_eq_none hlt] at h; simp at h
  rw [List.getElem?_append_left hj]; exact h

/-! ### From the ghost invariant to linearizability -/

/-- Logged operations that have not returned. -/
def openAll (log : List LE) : List LE := log.filter (fun e => !e.res.isSome)

theorem completed_openAll_perm (c : Nat) (l : List LE) :
    (completed l ++ (openAll l).map (LE.fin c)).Perm (l.map (LE.fin c)) := by
  induction l with
  | nil => exact List.Perm.refl _
  | cons e l ih =>
    simp only [completed, openAll, List.filterMap_cons, List.filter_cons, List.map_cons] at ih ⊢
    cases hr : e.res with
    | none =>
      simp only [LE.done?, hr, Option.map_none, Option.isSome_none, Bool.not_false, if_true, List.map_cons]
      exact List.perm_middle.trans (List.Perm.cons _ ih)
    | some r =>
      have : LE.fin c e = ⟨e.tid, e.op, e.ret, e.inv, r⟩ := by simp [LE.fin, hr]
      simp only [LE.done?, hr, Option.map_some, Option.isSome_some, Bool.not_true, Bool.false_eq_true, if_false,
        List.cons_append, this]
      exact List.Perm.cons _ ih

theorem openAll_pairwise (l : List LE) (h : ∀ t, (openOf t l).length ≤ 1) :
    (openAll l).Pairwise (fun a b => a.tid ≠ b.tid) := by
  induction l with
  | nil => exact List.Pairwise.nil
  | cons e l ih =>
    have hl : ∀ t, (openOf t l).length ≤ 1 := by
      intro t
      have h1 := h t
      have h2 : (openOf t l).length ≤ (openOf t (e :: l)).length := by
        simp only [openOf, List.filter_cons]; split <;> simp
      omega
    simp only [openAll, List.filter_cons]
    split
    next hr =>
      refine List.Pairwise.cons ?_ (ih hl)
      intro b hb hne
      have hb' := List.mem_filter.mp hb
      have hr' : e.res = none := by cases h : e.res <;> simp_all
      have hbr : b.res = none := by cases h : b.res <;> simp_all
      have hmem : b ∈ openOf e.tid l := by
        simp only [openOf, List.mem_filter]
        exact ⟨hb'.1, by simp [hne, hbr]⟩
      have := h e.tid
      simp only [openOf, List.filter_cons, hr', and_self, decide_true, if_true, List.length_cons] at this
      have hpos : 0 < (openOf e.tid l).length := List.length_pos_of_mem hmem
      simp only [openOf] at hpos
      omega
    next => exact ih hl

/-- The log without the open entries that answer `[0]` (tentative, or definitive but not yet returned, empty
    dequeues): these are pending operations, and the final linearization simply drops them. -/
def keepLE (e : LE) : Bool := !(e.res.isNone && e.ret == [0])
def finalLog (log : List LE) : List LE := log.filter keepLE

theorem keepLE_false {e : LE} (h : keepLE e = false) : e.res = none ∧ e.ret = [0] := by
  simp only [keepLE, Bool.not_eq_false', Bool.and_eq_true, Option.isNone_iff_eq_none, beq_iff_eq] at h
  exact h

theorem openAll_finalLog_sublist (log : List LE) : (openAll (finalLog log)).Sublist (openAll log) :=
  List.Sublist.filter _ List.filter_sublist


/-! ### Soundness of `historyOf` / `pendingOf`: records point at the right observations -/

theorem histAux_mem : ∀ (os : List (Tid × Obs)) (i : Nat) (pend : Pend) (r : OpRec GOp GRet),
    r ∈ histAux i pend os →
    ∃ j, r.res = i + j ∧ os[j]? = some (r.tid, .ret r.ret) ∧
      (pend r.tid = some (r.op, r.inv) ∨
        ∃ j0, j0 < j ∧ r.inv = i + j0 ∧ os[j0]? = some (r.tid, .call r.op)) := by
  intro os
  induction os with
  | nil => intro i pend r h; simp [histAux] at h
  | cons x os ih =>
    intro i pend r h
    obtain ⟨t, o⟩ := x
    cases o with
    | call op =>
      simp only [histAux] at h
      obtain ⟨j, h1, h2, h3⟩ := ih _ _ r h
      refine ⟨j + 1, by omega, by simpa using h2, ?_⟩
      rcases h3 with h3 | ⟨j0, h4, h5, h6⟩
      · by_cases ht : r.tid = t
        · rw [ht] at h3; simp [upd] at h3
          right; exact ⟨0, by omega, by omega, by simp [ht, h3.1]⟩
        · left; simpa [upd, ht] using h3
      · right; exact ⟨j0 + 1, by omega, by omega, by simpa using h6⟩
    | ev e =>
      simp only [histAux] at h
      obtain ⟨j, h1, h2, h3⟩ := ih _ _ r h
      refine ⟨j + 1, by omega, by simpa using h2, ?_⟩
      rcases h3 with h3 | ⟨j0, h4, h5, h6⟩
      · left; exact h3
      · right; exact ⟨j0 + 1, by omega, by omega, by simpa using h6⟩
    | ret rv =>
      simp only [histAux] at h
      cases hp : pend t with
      | none =>
        simp only [hp] at h
        obtain ⟨j, h1, h2, h3⟩ := ih _ _ r h
        refine ⟨j + 1, by omega, by simpa using h2, ?_⟩
        rcases h3 with h3 | ⟨j0, h4, h5, h6⟩
        · left; exact h3
        · right; exact ⟨j0 + 1, by omega, by omega, by simpa using h6⟩
      | some p =>
        obtain ⟨op, k⟩ := p
        simp only [hp, List.mem_cons] at h
        rcases h with h | h
        · subst h
          exact ⟨0, by simp, by simp, Or.inl hp⟩
        · obtain ⟨j, h1, h2, h3⟩ := ih _ _ r h
          refine ⟨j + 1, by omega, by simpa using h2, ?_⟩
          rcases h3 with h3 | ⟨j0, h4, h5, h6⟩
          · by_cases ht : r.tid = t
            · rw [ht] at h3; simp [upd] at h3
            · left; simpa [upd, ht] using h3
          · right; exact ⟨j0 + 1, by omega, by omega, by simpa using h6⟩

/-- Every record of `historyOf os` is an operation of `os`: `inv` is the index of its call, `res` the index of its
    return, and the call precedes the return. -/
theorem historyOf_sound (os : List (Tid × Obs)) (r : OpRec GOp GRet) (h : r ∈ historyOf os) :
    os[r.inv]? = some (r.tid, .call r.op) ∧ os[r.res]? = some (r.tid, .ret r.ret) ∧ r.inv < r.res := by
  obtain ⟨j, h1, h2, h3⟩ := histAux_mem os 0 (fun _ => none) r h
  rcases h3 with h3 | ⟨j0, h4, h5, h6⟩
  · simp at h3
  · have e1 : r.res = j := by omega
    have e2 : r.inv = j0 := by omega
    rw [e1, e2]; exact ⟨h6, h2, h4⟩

theorem pendAux_some : ∀ (os : List (Tid × Obs)) (i : Nat) (pend : Pend) (t : Tid) (op : GOp) (k : Nat),
    pendAux i pend os t = some (op, k) →
    pend t = some (op, k) ∨ ∃ j0, k = i + j0 ∧ os[j0]? = some (t, .call op) := by
  intro os
  induction os with
  | nil => intro i pend t op k h; left; simpa [pendAux] using h
  | cons x os ih =>
    intro i pend t op k h
    obtain ⟨t1, o⟩ := x
    have shift : (∃ j0, k = i + 1 + j0 ∧ os[j0]? = some (t, .call op)) →
        ∃ j0, k = i + j0 ∧ ((t1, o) :: os)[j0]? = some (t, .call op) := by
      rintro ⟨j0, h1, h2⟩; exact ⟨j0 + 1, by omega, by simpa using h2⟩
    cases o with
    | call op1 =>
      simp only [pendAux] at h
      rcases ih _ _ t op k h with h3 | h3
      · by_cases ht : t = t1
        · subst ht; simp [upd] at h3
          right; exact ⟨0, by omega, by simp [h3.1]⟩
        · left; simpa [upd, ht] using h3
      · right; exact shift h3
    | ev e =>
      simp only [pendAux] at h
      rcases ih _ _ t op k h with h3 | h3
      · left; exact h3
      · right; exact shift h3
    | ret rv =>
      simp only [pendAux] at h
      cases hp : pend t1 with
      | none =>
        simp only [hp] at h
        rcases ih _ _ t op k h with h3 | h3
        · left; exact h3
        · right; exact shift h3
      | some p =>
        simp only [hp] at h
        rcases ih _ _ t op k h with h3 | h3
        · by_cases ht : t = t1
          · subst ht; simp [upd] at h3
          · left; simpa [upd, ht] using h3
        · right; exact shift h3

/-- A pending operation of `pendingOf os` is an operation of `os`: its `call` observation is at the recorded index. -/
theorem pendingOf_sound (os : List (Tid × Obs)) (t : Tid) (op : GOp) (k : Nat)
    (h : pendingOf os t = some (op, k)) : os[k]? = some (t, .call op) := by
  rcases pendAux_some os 0 (fun _ => none) t op k h with h3 | ⟨j0, h1, h2⟩
  · simp at h3
  · have : k = j0 := by omega
    rw [this]; exact h2


/-! ### Sequential facts about `fifo` -/

theorem fifo_next_mem {st st' : List Int} {op : GOp} {r : GRet} {x : Int}
    (h : fifo.next st op r = some st') (hx : x ∈ st') : x ∈ st ∨ op = ⟨"enq", [x]⟩ := by
  obtain ⟨name, args⟩ := op
  simp only [fifo, detSpec] at h
  cases hs : fifoStep st ⟨name, args⟩ with
  | none => simp [hs] at h
  | some p =>
    obtain ⟨st1, r1⟩ := p
    simp [hs] at h
    obtain ⟨-, rfl⟩ := h
    unfold fifoStep at hs
    split at hs
    next v hn ha =>
      simp at hs hn ha; subst hn ha
      rw [← hs.1] at hx
      rcases List.mem_append.mp hx with e | e
      · left; exact e
      · right; simp at e; rw [e]
    next hn ha =>
      split at hs
      · simp at hs; rw [hs.1] at hx; simp at hx
      · simp at hs; rw [← hs.1] at hx; left; exact List.mem_cons_of_mem _ hx
    next => simp at hs

theorem fifo_deq_val {st st' : List Int} {v : Int} (h : fifo.next st ⟨"deq", []⟩ [1, v] = some st') : v ∈ st := by
  simp only [fifo, detSpec, fifoStep] at h
  cases st with
  | nil => simp at h
  | cons x xs => simp at h; simp [h.1]

theorem legal_deq_enqueued (r : OpRec GOp GRet) (l2 : List (OpRec GOp GRet)) (v : Int)
    (hop : r.op = ⟨"deq", []⟩) (hret : r.ret = [1, v]) :
    ∀ (l1 : List (OpRec GOp GRet)) (st : List Int), Legal fifo st (l1 ++ r :: l2) →
      v ∈ st ∨ ∃ p ∈ l1, p.op = ⟨"enq", [v]⟩ := by
  intro l1
  induction l1 with
  | nil =>
    intro st h
    obtain ⟨st1, h1, -⟩ := h
    rw [hop, hret] at h1
    exact Or.inl (fifo_deq_val h1)
  | cons o l1 ih =>
    intro st h
    obtain ⟨st1, h1, h2⟩ := h
    rcases ih st1 h2 with h3 | ⟨p, hp, hpp⟩
    · rcases fifo_next_mem h1 h3 with h4 | h4
      · exact Or.inl h4
      · exact Or.inr ⟨o, by simp, h4⟩
    · exact Or.inr ⟨p, List.mem_cons_of_mem _ hp, hpp⟩

/-- `r` is an `enq v`. -/
def isEnq (v : Int) (r : OpRec GOp GRet) : Bool := r.op == ⟨"enq", [v]⟩
/-- `r` is a dequeue that returned `v`. -/
def isDeqOf (v : Int) (r : OpRec GOp GRet) : Bool := r.op == ⟨"deq", []⟩ && r.ret == [1, v]

/-- One step of the sequential queue: occurrences of `v` in the queue + dequeues of `v` = ... + enqueues of `v`. -/
theorem fifo_step_count {st st' : List Int} (o : OpRec GOp GRet) (v : Int)
    (h : fifo.next st o.op o.ret = some st') :
    st'.count v + (if isDeqOf v o then 1 else 0) = st.count v + (if isEnq v o then 1 else 0) := by
  obtain ⟨tid, ⟨name, args⟩, ret, inv, res⟩ := o
  simp only [fifo, detSpec] at h
  cases hs : fifoStep st ⟨name, args⟩ with
  | none => simp [hs] at h
  | some p =>
    obtain ⟨st1, r1⟩ := p
    simp [hs] at h
    obtain ⟨rfl, rfl⟩ := h
    unfold fifoStep at hs
    split at hs
    next w hn ha =>
      simp at hs hn ha; subst hn ha
      obtain ⟨rfl, rfl⟩ := hs
      by_cases hw : w = v
      · subst hw; simp [isEnq, isDeqOf]
      · simp [isEnq, isDeqOf, hw]
    next hn ha =>
      simp at hn ha; subst hn ha
      split at hs
      · simp at hs; obtain ⟨rfl, rfl⟩ := hs; simp [isEnq, isDeqOf]
      next x xs =>
        simp at hs; obtain ⟨rfl, rfl⟩ := hs
        by_cases hx : x = v
        · subst hx; simp [isEnq, isDeqOf]
        · simp [isEnq, isDeqOf, hx]
    next => simp at hs

theorem legal_count (v : Int) : ∀ (l : List (OpRec GOp GRet)) (st : List Int), Legal fifo st l →
    l.countP (isDeqOf v) ≤ st.count v + l.countP (isEnq v) := by
  intro l
  induction l with
  | nil => intro st _; simp
  | cons o l ih =>
    intro st h
    obtain ⟨st1, h1, h2⟩ := h
    have := ih st1 h2
    have hc := fifo_step_count o v h1
    simp only [List.countP_cons]
    by_cases hd : isDeqOf v o = true <;> by_cases hen : isEnq v o = true <;> simp [hd, hen] at hc ⊢ <;> omega

/-- In a history linearizable to the FIFO queue, the dequeues that return `v` are at most as many as the
    enqueues of `v`. -/
theorem linearizable_no_dup {ops : List (OpRec GOp GRet)} (h : Linearizable fifo ops) (v : Int) :
    ops.countP (isDeqOf v) ≤ ops.countP (isEnq v) := by
  obtain ⟨perm, hperm, -, hlegal⟩ := h
  have := legal_count v perm [] hlegal
  rw [hperm.countP_eq, hperm.countP_eq] at this
  simpa using this

end CdsVerif.Algo.QueueLin

/-
  Preservation of `SInv` (Algo/Iterable/Inv.lean) by every transition of the IterableList machine.

  Method.  Every clause of `SInv` that does not mention program counters reads a few fields only and is a predicate
  of these fields (`OrdP`, `FreshP`, `ElemP`): a step that does not write them keeps the clause by `exact`.  The facts
  of a thread (`TInv`) are uniform in the program counter: a thread other than the stepping one keeps them by
  `TInv.frame` (the step writes nothing this thread reads — which is where mark ownership and privacy of nodes under
  construction are used) resp. `TInv.frame_link` (the one step that grows the chain).
-/
import CdsVerif.Algo.Iterable.Inv
namespace CdsVerif.Algo.Iterable
open CdsVerif.Machine CdsVerif.Spec

/-- Thread `t'` keeps its facts when the state changes only in places it does not read. -/
theorem TInv.frame {s s' : St} {t' : Tid} {pc' : PC} (h : TInv s t' pc')
    (hlk : s'.lk = s.lk) (hlt : s'.lt = s.lt) (hnt : s'.nt = s.nt) (hcnt : s.ncnt ≤ s'.ncnt)
    (hitn : s'.itn t' = s.itn t') (hhp : s'.hp t' = s.hp t') (hhv : s'.hv t' = s.hv t')
    (hnext : ∀ p, adjOf pc' = some p → s'.next p.prev = s.next p.prev)
    (hnextp : ∀ n, priv pc' = some n → s'.next n = s.next n)
    (hdc : ∀ p, lpos pc' = some p → s'.data p.cur = s.data p.cur ∧ s'.mo p.cur = s.mo p.cur)
    (hdp : ∀ p, ppos pc' = some p → s'.data p.prev = s.data p.prev ∧ s'.mo p.prev = s.mo p.prev)
    (hdn : ∀ n, priv pc' = some n → s'.data n = s.data n ∧ s'.mo n = s.mo n)
    (hel : ∀ e, pend pc' = some e → s'.used e = s.used e ∧ s'.retired e = s.retired e ∧ s'.home e = s.home e)
    (hdis : ∀ e, s.hp t' = some e → s'.disposed e = s.disposed e)
    (hhome : ∀ e a, s.home e = some a → s'.home e = some a)
    (hused : ∀ e, s.used e = true → s'.used e = true)
    (hkey : ∀ e, s.used e = true → s'.key e = s.key e) :
    TInv s' t' pc' := by
  obtain ⟨a1,a2,a3,a4,a5,a6,a7,a8,a8',a9,a10,a11,a12,a13,a14,a15,a16,a17,a18,a19,a20,a21,a22,a23,a24,a25,a26,a27⟩ := h
  constructor
  · intro a ha; rw [hlk]; exact a1 a ha
  · intro a b hab; rw [hlk, hlt]; exact a2 a b hab
  · exact a3
  · intro p hp; rw [hlk, hlt]; exact a4 p hp
  · intro p hp; rw [hnext p hp]; exact a5 p hp
  · exact a6
  · intro p hp; rw [(hdc p hp).1, (hdc p hp).2]; exact a7 p hp
  · intro p hp; rw [(hdp p hp).1, (hdp p hp).2]; exact a8 p hp
  · intro a ha; rw [hlk]; exact a8' a ha
  · intro n hn; rw [hlk, (hdn n hn).2]; have := a9 n hn; exact ⟨this.1, by omega, this.2.2⟩
  · intro j p n hpc; rw [(hdn n (by simp [hpc, priv])).1]; exact a10 j p n hpc
  · intro j p n hpc; rw [(hdn n (by rcases hpc with h | h <;> simp [h, priv])).1]; exact a11 j p n hpc
  · intro j p n hpc; rw [hnextp n (by simp [hpc, priv])]; exact a12 j p n hpc
  · intro e he; rw [(hel e he).1, (hel e he).2.1]; exact a13 e he
  · intro e a he; rw [(hel e he).2.2]; exact a14 e a he
  · intro n e hn; rw [(hdn n hn).1]; exact a15 n e hn
  · rw [hlk, hitn]; exact a16
  · rw [hnt, hhp]; exact a17
  · intro e; rw [hhp, hhv]; intro he hv; rw [hdis e he]; exact a18 e he hv
  · intro e; rw [hhp, hhv, hitn]; intro he hv hm; exact hhome e _ (a19 e he hv hm)
  · intro e he; rw [hhp, hhv]; exact a20 e he
  · intro w hw; rw [hhp]; exact a21 w hw
  · intro e; rw [hhp, hhv]; exact a22 e
  · intro j hj; have := a23 j hj; exact ⟨hused _ this.1, by rw [hkey _ this.1]; exact this.2⟩
  · intro j k pv hj hw; have := a24 j k pv hj hw
    exact ⟨this.1, fun v hv => ⟨hused _ (this.2 v hv).1, by rw [hkey _ (this.2 v hv).1]; exact (this.2 v hv).2⟩⟩
  · intro j p hj hp; have := a25 j p hj hp
    exact ⟨fun v hv => ⟨hused _ (this.1 v hv).1, by rw [hkey _ (this.1 v hv).1]; exact (this.1 v hv).2⟩,
      fun f hf => ⟨hused _ (this.2.1 f hf).1, by rw [hkey _ (this.2.1 f hf).1]; exact (this.2.1 f hf).2⟩, this.2.2⟩
  · exact a26
  · intro j cur e hpc; have := a27 j cur e hpc; exact ⟨hused _ this.1, by rw [hkey _ this.1]; exact this.2⟩

/-- Nothing but program counters changed. -/
theorem TInv.same {s s' : St} {t' : Tid} {pc' : PC} (h : TInv s t' pc')
    (e : s' = { s with pc := s'.pc }) : TInv s' t' pc' := by
  rw [e]
  exact h.frame rfl rfl rfl (Nat.le_refl _) rfl rfl rfl (fun _ _ => rfl) (fun _ _ => rfl)
    (fun _ _ => ⟨rfl, rfl⟩) (fun _ _ => ⟨rfl, rfl⟩) (fun _ _ => ⟨rfl, rfl⟩) (fun _ _ => ⟨rfl, rfl, rfl⟩)
    (fun _ _ => rfl) (fun _ _ h => h) (fun _ h => h) (fun _ _ => rfl)

/-- A per-thread resource (`priv`, `pend`) stays exclusive when the stepping thread keeps what it had or takes
    something nobody else has. -/
theorem uniq_upd {α : Type} (f : PC → Option α) (pc : Tid → PC) (t : Tid) (Y : PC)
    (hu : ∀ t1 t2 n, f (pc t1) = some n → f (pc t2) = some n → t1 = t2)
    (hY : ∀ n, f Y = some n → ∀ t0, t0 ≠ t → f (pc t0) ≠ some n) :
    ∀ t1 t2 n, f (upd pc t Y t1) = some n → f (upd pc t Y t2) = some n → t1 = t2 := by
  intro t1 t2 n h1 h2
  by_cases e1 : t1 = t <;> by_cases e2 : t2 = t
  · rw [e1, e2]
  · subst e1; rw [upd_same] at h1; rw [upd_other _ _ _ _ e2] at h2; exact absurd h2 (hY n h1 t2 e2)
  · subst e2; rw [upd_same] at h2; rw [upd_other _ _ _ _ e1] at h1; exact absurd h1 (hY n h2 t1 e1)
  · rw [upd_other _ _ _ _ e1] at h1; rw [upd_other _ _ _ _ e2] at h2; exact hu t1 t2 n h1 h2

theorem uniq_upd_keep {α : Type} (f : PC → Option α) (pc : Tid → PC) (t : Tid) (Y : PC)
    (hu : ∀ t1 t2 n, f (pc t1) = some n → f (pc t2) = some n → t1 = t2)
    (hY : ∀ n, f Y = some n → f (pc t) = some n) :
    ∀ t1 t2 n, f (upd pc t Y t1) = some n → f (upd pc t Y t2) = some n → t1 = t2 :=
  uniq_upd f pc t Y hu (fun n hn t0 h0 hc => h0 (hu t0 t n hc (hY n hn)))

/-- Assemble `SInv` of the successor state of a step of thread `t` to program counter `Y`. -/
theorem sinv_build {s s' : St} {t : Tid} {Y : PC} (h : SInv s) (hpc' : s'.pc = upd s.pc t Y)
    (hord : OrdP s'.lk s'.lt s'.next s'.ncnt) (hfresh : FreshP s'.ncnt s'.next s'.data s'.mo)
    (helem : ElemP s'.data s'.home s'.retired s'.used s'.disposed s'.ncnt)
    (hbit : ∀ a, (s'.data a).m = true ↔ s'.mo a ≠ none)
    (hownY : ∀ a, s'.mo a = some t → holds Y a)
    (hownO : ∀ a t0, t0 ≠ t → s'.mo a = some t0 → s.mo a = some t0)
    (hY : TInv s' t Y)
    (hoth : ∀ t0, t0 ≠ t → TInv s' t0 (s.pc t0))
    (hpriv : ∀ n, priv Y = some n → ∀ t0, t0 ≠ t → priv (s.pc t0) ≠ some n)
    (hpend : ∀ e, pend Y = some e → ∀ t0, t0 ≠ t → pend (s.pc t0) ≠ some e) : SInv s' := by
  refine ⟨hord, hfresh, helem, hbit, ?_, ?_, ?_, ?_⟩
  · intro a t0 hm
    rw [hpc']
    by_cases e : t0 = t
    · subst e; rw [upd_same]; exact hownY a hm
    · rw [upd_other _ _ _ _ e]; exact h.own a t0 (hownO a t0 e hm)
  · intro t0
    rw [hpc']
    by_cases e : t0 = t
    · subst e; rw [upd_same]; exact hY
    · rw [upd_other _ _ _ _ e]; exact hoth t0 e
  · rw [hpc']; exact uniq_upd priv s.pc t Y h.upriv hpriv
  · rw [hpc']; exact uniq_upd pend s.pc t Y h.upend hpend

/-- `sinv_build` for a step after which the thread owns (at most) the private node and pending element it owned. -/
theorem sinv_build_keep {s s' : St} {t : Tid} {Y : PC} (h : SInv s) (hpc' : s'.pc = upd s.pc t Y)
    (hord : OrdP s'.lk s'.lt s'.next s'.ncnt) (hfresh : FreshP s'.ncnt s'.next s'.data s'.mo)
    (helem : ElemP s'.data s'.home s'.retired s'.used s'.disposed s'.ncnt)
    (hbit : ∀ a, (s'.data a).m = true ↔ s'.mo a ≠ none)
    (hownY : ∀ a, s'.mo a = some t → holds Y a)
    (hownO : ∀ a t0, t0 ≠ t → s'.mo a = some t0 → s.mo a = some t0)
    (hY : TInv s' t Y)
    (hoth : ∀ t0, t0 ≠ t → TInv s' t0 (s.pc t0))
    (hpriv : ∀ n, priv Y = some n → priv (s.pc t) = some n)
    (hpend : ∀ e, pend Y = some e → pend (s.pc t) = some e) : SInv s' :=
  sinv_build h hpc' hord hfresh helem hbit hownY hownO hY hoth
    (fun n hn t0 h0 hc => h0 (h.upriv t0 t n hc (hpriv n hn)))
    (fun e he t0 h0 hc => h0 (h.upend t0 t e hc (hpend e he)))

/-- `priv Y ⊆ priv X`, `pend Y ⊆ pend X` by evaluation. -/
macro "keep" hpc:ident : tactic =>
  `(tactic| (rw [$hpc:ident]; intro x hx; first | exact hx | cases hx))

/-- A step that changes nothing but the stepping thread's program counter. -/
theorem sinv_pc_only {s : St} {t : Tid} (h : SInv s) (Y : PC)
    (hY : TInv s t Y)
    (hholds : ∀ a, holds (s.pc t) a → holds Y a)
    (hpriv : ∀ n, priv Y = some n → priv (s.pc t) = some n)
    (hpend : ∀ e, pend Y = some e → pend (s.pc t) = some e) :
    SInv { s with pc := upd s.pc t Y } := by
  apply sinv_build h (s' := { s with pc := upd s.pc t Y }) (t := t) (Y := Y) rfl h.ord h.fresh h.elem h.bit
  · intro a hm; exact hholds a (h.own a t hm)
  · intro a t0 _ hm; exact hm
  · exact hY.same rfl
  · intro t0 _; exact (h.thr t0).same rfl
  · intro n hn t0 h0 hc; exact h0 (h.upriv t0 t n hc (hpriv n hn))
  · intro e he t0 h0 hc; exact h0 (h.upend t0 t e hc (hpend e he))

macro "projs" : tactic =>
  `(tactic| simp only [wPrev, wCur, wInner, posOf, lpos, ppos, adjOf, priv, pend, moving, holds, casNode, unval, jobOf, walkKV, ctorOf, Purp.job_fprev, Purp.job_ins, Purp.job_find,
      Purp.job_contains, Purp.job_erase, Purp.pos_fprev,
      Purp.pos_ins, Purp.pos_find, Purp.pos_contains, Purp.pos_erase, Purp.elem_fprev, Purp.elem_ins, Purp.elem_find,
      Purp.elem_contains, Purp.elem_erase, Option.map_some, Option.map_none, Option.some.injEq, reduceCtorEq, false_implies, implies_true,
      forall_const, Prod.mk.injEq, and_imp, forall_eq', forall_eq, forall_apply_eq_imp_iff, false_or, or_false,
      imp_self, PC.wNext.injEq, PC.wTail.injEq, PC.updCas.injEq] at *)

set_option hygiene false in
/-- Unpack the facts of the stepping thread at its current program counter, and the chain order. -/
macro "unpack" h:ident hpc:ident t:ident : tactic =>
  `(tactic| (have ht := ($h).thr $t; rw [$hpc:ident] at ht;
             obtain ⟨a1,a2,a3,a4,a5,a6,a7,a8,a8',a9,a10,a11,a12,a13,a14,a15,a16,a17,a18,a19,a20,a21,a22,a23,a24,a25,a26,a27⟩ := ht;
             obtain ⟨o1,o2,o3,o4,o5,o6,o7,o8,o9,o10,o11,o12,o13,o14⟩ := ($h).ord;
             have hown := fun a => ($h).own a $t; simp only [$hpc:ident] at hown;
             have ehd := ($h).elem.hdnil; have etl := ($h).elem.tlnil))

set_option hygiene false in
/-- Close a goal about the new program counter: first without the (expensive) order axioms, then with them. -/
macro "tfin" : tactic =>
  `(tactic| first
      | (clear o6 o8 o9 o10 o11 o12 o13; grind [hd, tl, upd])
      | grind [hd, tl, upd])

/-- The four obligations of `sinv_pc_only`, by evaluation of the projections. -/
macro "pconly" h:ident hpc:ident : tactic =>
  `(tactic| (apply sinv_pc_only $h
             · constructor <;> intros <;> projs <;> (try tfin)
             · rw [$hpc:ident]; intros; projs <;> (try grind)
             · rw [$hpc:ident]; intros; projs <;> (try grind)
             · rw [$hpc:ident]; intros; projs <;> (try grind)))

/-! ### The walk -/

theorem step_wHead {s : St} {t : Tid} {j : Job} (h : SInv s) (hpc : s.pc t = .wHead j) :
    SInv { s with pc := upd s.pc t (.wNext (.ins j) j.k hd (s.data hd).p) } := by
  unpack h hpc t
  pconly h hpc

theorem step_wNext {s : St} {t : Tid} {pu : Purp} {k : Int} {prev : Nat} {pv : Option Nat}
    (h : SInv s) (hpc : s.pc t = .wNext pu k prev pv) :
    SInv { s with pc := upd s.pc t (.wTail pu k prev pv (s.next prev)) } := by
  unpack h hpc t
  pconly h hpc

theorem step_wLd1 {s : St} {t : Tid} {pu : Purp} {k : Int} {prev cur : Nat} {pv : Option Nat}
    (h : SInv s) (hpc : s.pc t = .wLd1 pu k prev pv cur) :
    SInv { s with pc := upd s.pc t (.wLd2 pu k prev pv cur (s.data cur)) } := by
  unpack h hpc t
  pconly h hpc

theorem concl_cases (pu : Purp) (k : Int) (prev : Nat) (pv : Option Nat) (cur : Nat) (fnd : Option Nat) (eq : Bool) :
    (∃ r, pu.pos = none ∧ concl pu k prev pv cur fnd eq = .done r) ∨
    (∃ e, pu = .erase ∧ fnd = some e ∧ concl pu k prev pv cur fnd eq = .eraseCas k cur e) ∨
    (∃ j e, pu = .ins j ∧ fnd = some e ∧ eq = true ∧ concl pu k prev pv cur fnd eq = .updCas j cur e) ∨
    (∃ j, pu = .ins j ∧ (∀ e, fnd = some e → eq = false) ∧
      concl pu k prev pv cur fnd eq = .lMarkCur j ⟨prev, cur, fnd, pv⟩) ∨
    (∃ j p, pu = .fprev j p ∧ prev = p.prev ∧ p.prev ≠ hd ∧ p.pv = none ∧ concl pu k prev pv cur fnd eq = .lReuse j p) ∨
    (∃ j p, pu = .fprev j p ∧ prev = p.prev ∧ (p.pv = none → p.prev = hd) ∧
      concl pu k prev pv cur fnd eq = .lCtor1 j p) ∨
    (∃ j p, pu = .fprev j p ∧ concl pu k prev pv cur fnd eq = .lRelPrev j p false) := by
  cases pu with
  | find => left; cases fnd <;> cases eq <;> simp [concl, Purp.pos]
  | contains => left; cases eq <;> simp [concl, Purp.pos]
  | erase =>
    cases fnd with
    | none => left; simp [concl, Purp.pos]
    | some e => cases eq <;> simp [concl, Purp.pos]
  | ins j =>
    cases fnd with
    | none => simp only [concl]; split <;> simp [Purp.pos]
    | some e =>
      cases eq with
      | false => simp only [concl]; split <;> simp [Purp.pos]
      | true => simp only [concl]; split <;> simp [Purp.pos]
  | fprev j p =>
    simp only [concl, proceed]
    split
    · split
      · right; right; right; right; left; exact ⟨j, p, rfl, ‹_›, (‹_ ∧ _›).1, (‹_ ∧ _›).2, rfl⟩
      · right; right; right; right; right; left
        refine ⟨j, p, rfl, ‹_›, ?_, rfl⟩
        intro hpv
        rename_i hnot
        exact Classical.byContradiction fun hne => hnot ⟨hne, hpv⟩
    · right; right; right; right; right; right; exact ⟨j, p, rfl, rfl⟩

theorem proceed_cases (j : Job) (p : Pos) :
    (p.prev ≠ hd ∧ p.pv = none ∧ proceed j p = .lReuse j p) ∨ ((p.pv = none → p.prev = hd) ∧ proceed j p = .lCtor1 j p) := by
  unfold proceed
  split
  · left; exact ⟨(‹_ ∧ _›).1, (‹_ ∧ _›).2, rfl⟩
  · right
    rename_i hnot
    exact ⟨fun hpv => Classical.byContradiction fun hne => hnot ⟨hne, hpv⟩, rfl⟩

/-- A linked node whose `next` points to itself is the tail. -/
theorem self_loop_tail {s : St} (h : SInv s) {a : Nat} (hl : s.lk a = true) (hn : s.next a = a) : a = 2 := by
  cases Nat.decEq a 2 with
  | isTrue e => exact e
  | isFalse e =>
    have := h.ord.nx a hl e
    rw [hn, h.ord.irr] at this; cases this

set_option maxHeartbeats 8000000 in
/-- Walk reached `( prev, cur )` and concludes: the facts of the walk carry over to whatever comes next.
    `fnd`/`eq` are what the walk saw in `cur`: nothing (`cur` is the tail), or an element whose key is `≥ k`. -/
theorem sinv_concl {s : St} {t : Tid} {pu : Purp} {k : Int} {prev cur : Nat} {pv fnd : Option Nat} {eq : Bool}
    {X : PC} (h : SInv s) (hpc : s.pc t = X)
    (hX : X = .wTail pu k prev pv cur ∨ ∃ w, X = .wLd2 pu k prev pv cur w)
    (hf : ∀ e, fnd = some e → s.used e = true ∧ k ≤ s.key e ∧ (eq = true ↔ s.key e = k))
    (hn : fnd = none → cur = 2) :
    SInv { s with pc := upd s.pc t (concl pu k prev pv cur fnd eq) } := by
  have ht := h.thr t
  obtain ⟨o1,o2,o3,o4,o5,o6,o7,o8,o9,o10,o11,o12,o13,o14⟩ := h.ord
  have hown := fun a => h.own a t
  rcases hX with hX | ⟨w, hX⟩ <;> subst hX <;> rw [hpc] at ht <;> simp only [hpc] at hown <;>
    obtain ⟨a1,a2,a3,a4,a5,a6,a7,a8,a8',a9,a10,a11,a12,a13,a14,a15,a16,a17,a18,a19,a20,a21,a22,a23,a24,a25,a26,a27⟩ := ht <;>
    rcases concl_cases pu k prev pv cur fnd eq with ⟨r, hpn, hc⟩ | ⟨e, rfl, rfl, hc⟩ | ⟨j, e, rfl, rfl, heq, hc⟩ |
      ⟨j, rfl, hneq, hc⟩ | ⟨j, p, rfl, rfl, hp1, hp2, hc⟩ | ⟨j, p, rfl, rfl, hp1, hc⟩ | ⟨j, p, rfl, hc⟩ <;>
    rw [hc] <;> pconly h hpc

theorem step_wTail_in {s : St} {t : Tid} {pu : Purp} {k : Int} {prev cur : Nat} {pv : Option Nat}
    (h : SInv s) (hpc : s.pc t = .wTail pu k prev pv cur) (hne : ¬ s.next cur = cur) :
    SInv { s with pc := upd s.pc t (.wLd1 pu k prev pv cur) } := by
  unpack h hpc t
  pconly h hpc

theorem step_wLd2_retry {s : St} {t : Tid} {pu : Purp} {k : Int} {prev cur : Nat} {pv : Option Nat} {w : DW}
    (h : SInv s) (hpc : s.pc t = .wLd2 pu k prev pv cur w) :
    SInv { s with pc := upd s.pc t (.wLd2 pu k prev pv cur (s.data cur)) } := by
  unpack h hpc t
  pconly h hpc

theorem step_wLd2_on {s : St} {t : Tid} {pu : Purp} {k : Int} {prev cur : Nat} {pv x : Option Nat} {w : DW}
    (h : SInv s) (hpc : s.pc t = .wLd2 pu k prev pv cur w)
    (hx : ∀ v, x = some v → s.used v = true ∧ s.key v < k) :
    SInv { s with pc := upd s.pc t (.wNext pu k cur x) } := by
  unpack h hpc t
  pconly h hpc

/-! ### Writes to a data word -/

theorem freshP_data {ncnt : Nat} {next : Nat → Nat} {data : Nat → DW} {mo : Nat → Option Tid}
    (h : FreshP ncnt next data mo) (a : Nat) (w : DW) (m : Option Tid) (ha : a < ncnt) :
    FreshP ncnt next (upd data a w) (upd mo a m) := by
  constructor
  intro b hb
  have := h.fresh b hb
  have hne : b ≠ a := by omega
  simp only [upd_other _ _ _ _ hne]
  exact this

theorem bit_upd {data : Nat → DW} {mo : Nat → Option Tid} (h : ∀ a, (data a).m = true ↔ mo a ≠ none)
    (a : Nat) (w : DW) (m : Option Tid) (hw : w.m = true ↔ m ≠ none) :
    ∀ b, ((upd data a w) b).m = true ↔ (upd mo a m) b ≠ none := by
  intro b
  by_cases e : b = a
  · subst e; simp only [upd_same]; exact hw
  · simp only [upd_other _ _ _ _ e]; exact h b

/-- Setting or clearing the mark bit (the pointer part is unchanged). -/
theorem elemP_mark {data : Nat → DW} {home : Nat → Option Nat} {retired : Nat → Option Tid} {used disposed : Nat → Bool}
    {ncnt : Nat} (h : ElemP data home retired used disposed ncnt) (a : Nat) (w : DW) (hw : w.p = (data a).p) :
    ElemP (upd data a w) home retired used disposed ncnt := by
  obtain ⟨e1, e2, e3, e4, e5, e6, e7⟩ := h
  constructor
  · intro b e hb; by_cases hba : b = a
    · subst hba; rw [upd_same, hw] at hb; exact e1 b e hb
    · rw [upd_other _ _ _ _ hba] at hb; exact e1 b e hb
  · intro b e hb; by_cases hba : b = a
    · subst hba; rw [upd_same, hw] at hb; exact e2 b e hb
    · rw [upd_other _ _ _ _ hba] at hb; exact e2 b e hb
  · by_cases hba : 1 = a
    · subst hba; rw [upd_same, hw]; exact e3
    · rw [upd_other _ _ _ _ hba]; exact e3
  · by_cases hba : 2 = a
    · subst hba; rw [upd_same, hw]; exact e4
    · rw [upd_other _ _ _ _ hba]; exact e4
  · exact e5
  · exact e6
  · exact e7

/-- Another thread keeps its facts when the stepping thread `t` writes the data word (and ghost mark owner) of a
    LINKED node `a` whose mark nobody else holds. -/
theorem TInv.frame_data {s : St} {t t' : Tid} (h : SInv s) (hne : t' ≠ t) (a : Nat) (w : DW) (m : Option Tid)
    (pcf : Tid → PC) (hlk : s.lk a = true) (hmo : s.mo a = none ∨ s.mo a = some t) :
    TInv { s with data := upd s.data a w, mo := upd s.mo a m, pc := pcf } t' (s.pc t') := by
  have hq := h.thr t'
  have b7 := hq.mcur
  have b8 := hq.mprev
  have b9 := hq.pcnt
  apply hq.frame <;> first | rfl | exact Nat.le_refl _ | (intros; rfl) | (intros; exact ⟨rfl, rfl, rfl⟩) | (intros; assumption) | skip
  · intro p hp; have := b7 p hp; dsimp only; constructor <;> grind [upd]
  · intro p hp; have := b8 p hp; dsimp only; constructor <;> grind [upd]
  · intro n hn; have := b9 n hn; dsimp only; constructor <;> grind [upd]

theorem step_lMarkCur_ok {s : St} {t : Tid} {j : Job} {p : Pos} (h : SInv s) (hpc : s.pc t = .lMarkCur j p)
    (hd : s.data p.cur = ⟨p.found, false⟩) :
    SInv { s with data := upd s.data p.cur ⟨p.found, true⟩, mo := upd s.mo p.cur (some t),
                  pc := upd s.pc t (.lMarkPrev j p) } := by
  unpack h hpc t
  have hb := h.bit p.cur
  have hlk : s.lk p.cur = true := by projs; exact a4.2.1
  have hmo : s.mo p.cur = none := by grind
  have hcnt := o5 _ hlk
  apply sinv_build_keep h (t := t) (Y := .lMarkPrev j p)
  · rfl
  · exact h.ord
  · exact freshP_data h.fresh _ _ _ hcnt
  · exact elemP_mark h.elem _ _ (by rw [hd])
  · exact bit_upd h.bit _ _ _ (by simp)
  · intro a ha; dsimp only at ha; have := hown a; projs; grind [upd]
  · intro a t0 h0 ha; dsimp only at ha; grind [upd]
  · constructor <;> intros <;> projs <;> (try dsimp only) <;> (try tfin)
  · intro t0 h0; exact TInv.frame_data h h0 _ _ _ _ hlk (Or.inl hmo)
  · keep hpc
  · keep hpc

theorem step_lMarkCur_fail {s : St} {t : Tid} {j : Job} {p : Pos} (h : SInv s) (hpc : s.pc t = .lMarkCur j p) :
    SInv { s with pc := upd s.pc t (.wHead j) } := by
  unpack h hpc t
  pconly h hpc

theorem step_lMarkPrev_ok {s : St} {t : Tid} {j : Job} {p : Pos} (h : SInv s) (hpc : s.pc t = .lMarkPrev j p)
    (hd : s.data p.prev = ⟨p.pv, false⟩) :
    SInv { s with data := upd s.data p.prev ⟨p.pv, true⟩, mo := upd s.mo p.prev (some t),
                  pc := upd s.pc t (.lChkNext j p) } := by
  unpack h hpc t
  have hb := h.bit p.prev
  have hlk : s.lk p.prev = true := by projs; exact a4.1
  have hmo : s.mo p.prev = none := by grind
  have hcnt := o5 _ hlk
  apply sinv_build_keep h (t := t) (Y := .lChkNext j p)
  · rfl
  · exact h.ord
  · exact freshP_data h.fresh _ _ _ hcnt
  · exact elemP_mark h.elem _ _ (by rw [hd])
  · exact bit_upd h.bit _ _ _ (by simp)
  · intro a ha; dsimp only at ha; have := hown a; projs; grind [upd]
  · intro a t0 h0 ha; dsimp only at ha; grind [upd]
  · constructor <;> intros <;> projs <;> (try dsimp only) <;> (try tfin)
  · intro t0 h0; exact TInv.frame_data h h0 _ _ _ _ hlk (Or.inl hmo)
  · keep hpc
  · keep hpc

theorem step_lMarkPrev_fail {s : St} {t : Tid} {j : Job} {p : Pos} (h : SInv s) (hpc : s.pc t = .lMarkPrev j p) :
    SInv { s with pc := upd s.pc t (.lRelCur j p false) } := by
  unpack h hpc t
  pconly h hpc

theorem step_lChkNext_ok {s : St} {t : Tid} {j : Job} {p : Pos} (h : SInv s) (hpc : s.pc t = .lChkNext j p)
    (hn : s.next p.prev = p.cur) :
    SInv { s with pc := upd s.pc t (if p.pv = none then .wNext (.fprev j p) j.k hd none else proceed j p) } := by
  unpack h hpc t
  split
  · pconly h hpc
  · rcases proceed_cases j p with ⟨hp1, hp2, hc⟩ | ⟨hp1, hc⟩ <;> rw [hc] <;> pconly h hpc

theorem step_lChkNext_fail {s : St} {t : Tid} {j : Job} {p : Pos} (h : SInv s) (hpc : s.pc t = .lChkNext j p) :
    SInv { s with pc := upd s.pc t (.lRelPrev j p false) } := by
  unpack h hpc t
  pconly h hpc

theorem step_lRelPrev {s : St} {t : Tid} {j : Job} {p : Pos} {ok : Bool} (h : SInv s)
    (hpc : s.pc t = .lRelPrev j p ok) :
    SInv { s with data := upd s.data p.prev ⟨p.pv, false⟩, mo := upd s.mo p.prev none,
                  pc := upd s.pc t (.lRelCur j p ok) } := by
  unpack h hpc t
  have hlk : s.lk p.prev = true := by projs; exact a4.1
  have hmo : s.mo p.prev = some t := by projs; exact a8.1
  have hd : s.data p.prev = ⟨p.pv, true⟩ := by projs; exact a8.2
  have hcnt := o5 _ hlk
  apply sinv_build_keep h (t := t) (Y := .lRelCur j p ok)
  · rfl
  · exact h.ord
  · exact freshP_data h.fresh _ _ _ hcnt
  · exact elemP_mark h.elem _ _ (by rw [hd])
  · exact bit_upd h.bit _ _ _ (by simp)
  · intro a ha; dsimp only at ha; have := hown a; projs; grind [upd]
  · intro a t0 h0 ha; dsimp only at ha; grind [upd]
  · constructor <;> intros <;> projs <;> (try dsimp only) <;> (try tfin)
  · intro t0 h0; exact TInv.frame_data h h0 _ _ _ _ hlk (Or.inr hmo)
  · keep hpc
  · keep hpc

theorem step_lRelCur {s : St} {t : Tid} {j : Job} {p : Pos} {ok : Bool} (h : SInv s)
    (hpc : s.pc t = .lRelCur j p ok) :
    SInv { s with data := upd s.data p.cur ⟨p.found, false⟩, mo := upd s.mo p.cur none,
                  pc := upd s.pc t (if ok then .done (okRet j) else .wHead j) } := by
  unpack h hpc t
  have hlk : s.lk p.cur = true := by projs; exact a4.2.1
  have hmo : s.mo p.cur = some t := by projs; exact a7.1
  have hd : s.data p.cur = ⟨p.found, true⟩ := by projs; exact a7.2
  have hcnt := o5 _ hlk
  apply sinv_build_keep h (t := t)
  · rfl
  · exact h.ord
  · exact freshP_data h.fresh _ _ _ hcnt
  · exact elemP_mark h.elem _ _ (by rw [hd])
  · exact bit_upd h.bit _ _ _ (by simp)
  · intro a ha; dsimp only at ha; have := hown a; projs; grind [upd]
  · intro a t0 h0 ha; dsimp only at ha; grind [upd]
  · cases ok <;> simp only [Bool.false_eq_true, ↓reduceIte] <;>
      constructor <;> intros <;> projs <;> (try dsimp only) <;> (try tfin)
  · intro t0 h0; exact TInv.frame_data h h0 _ _ _ _ hlk (Or.inr hmo)
  · cases ok <;> simp only [Bool.false_eq_true, ↓reduceIte] <;> keep hpc
  · cases ok <;> simp only [Bool.false_eq_true, ↓reduceIte] <;> keep hpc

end CdsVerif.Algo.Iterable

/-
  C06 — OptimisticQueue (cds::intrusive::OptimisticQueue, Ladan-Mozes & Shavit: doubly linked, `m_pPrev` written
  optimistically and repaired by `fix_list`) is a linearizable FIFO queue: every concurrent history of the
  atomic-step model `Algo/Optimistic/Model.lean` is linearizable to `Spec.fifo`; `dequeue` reports "empty" only if
  the queue was empty at some instant during the call; `fix_list` never dereferences a null pointer.
  Property theorems only; the model, the invariant and the proof live in
  `Algo/Optimistic/{Model,Inv,Steps,Lin}.lean` and in the generic ghost-log construction
  `Algo/QueueLin/{Chain,History,Ghost}.lean`.

  The `m_pPrev` links are hints only: the invariant requires nothing of them but that they point to published
  nodes.  Safety rests on the dequeuer's own check `pFirstNodePrev->m_pNext == pHead` and on the fact that exactly
  one published node has `m_pNext == pHead`.

  Assumption of the model (not proved here): a node is not reused while any thread may still hold a pointer to it
  (garbage-collected heap; the disposer's `clear_links` is not modelled).  This is what the hazard pointers taken
  by `guards.protect` provide.
-/
import CdsVerif.Algo.Optimistic.Lin
namespace CdsVerif.Props.C06Optimistic
open CdsVerif.Machine CdsVerif.Lin CdsVerif.Spec CdsVerif.Algo CdsVerif.Algo.QueueLin

/-- Linearizability, general form (Herlihy–Wing with completion of pending operations).  For EVERY schedule (any
    number of threads, any client program of `enq v` / `deq`, any interleaving of the atomic steps, `fix_list`
    included), the history of the completed operations of the run — extended by response records for the pending
    operations that have passed their linearization point definitively (at most one per thread; each is an
    operation pending in `os`, completed with the result fixed at its linearization point and the response time
    "end of run"), all other pending operations being dropped — is linearizable to the sequential FIFO queue. -/
theorem C06_optimistic_linearizable (sched : List (Tid × Act)) (s : Optimistic.St) (os : List (Tid × Obs))
    (h : Optimistic.model.run Optimistic.init sched = some (s, os)) :
    ∃ extra : List (OpRec GOp GRet),
      (∀ e ∈ extra, pendingOf os e.tid = some (e.op, e.inv) ∧ e.res = os.length ∧
          Optimistic.postRet (s.pc e.tid) = some e.ret) ∧
      extra.Pairwise (fun a b => a.tid ≠ b.tid) ∧
      Linearizable fifo (historyOf os ++ extra) :=
  Optimistic.optimistic_linearizable sched s os h

/-- Runs in which every invoked operation has returned: the history is linearizable as it is. -/
theorem C06_optimistic_linearizable_complete_runs (sched : List (Tid × Act)) (s : Optimistic.St)
    (os : List (Tid × Obs)) (h : Optimistic.model.run Optimistic.init sched = some (s, os))
    (hq : ∀ t, s.pc t = .idle) :
    Linearizable fifo (historyOf os) :=
  Optimistic.optimistic_linearizable_complete_runs sched s os h hq

/-- More generally: runs at whose end no thread is between its definitive linearization point and its return. -/
theorem C06_optimistic_linearizable_no_effect_pending (sched : List (Tid × Act)) (s : Optimistic.St)
    (os : List (Tid × Obs)) (h : Optimistic.model.run Optimistic.init sched = some (s, os))
    (hq : ∀ t, Optimistic.postRet (s.pc t) = none) :
    Linearizable fifo (historyOf os) :=
  Optimistic.optimistic_linearizable_no_effect_pending sched s os h hq

/-- Conservation, part 1 — no invention: every value returned by a `deq` is the argument of an `enq` that was
    invoked before the `deq` returned. -/
theorem C06_optimistic_no_invention (sched : List (Tid × Act)) (s : Optimistic.St) (os : List (Tid × Obs))
    (h : Optimistic.model.run Optimistic.init sched = some (s, os)) (r : OpRec GOp GRet)
    (hr : r ∈ historyOf os) (hop : r.op = ⟨"deq", []⟩) (v : Int) (hret : r.ret = [1, v]) :
    ∃ i t', i < r.res ∧ os[i]? = some (t', .call ⟨"enq", [v]⟩) :=
  Optimistic.optimistic_no_invention sched s os h r hr hop v hret

/-- Conservation, part 2 — no duplication: for every value `v` the completed dequeues that returned `v` are at most
    as many as the `enq v` operations of the run (the completed ones plus the pending ones in `extra`).  (No loss:
    linearizability itself — a `deq` on a queue that is not empty in the linearization order cannot answer
    "empty", and it returns the oldest value.) -/
theorem C06_optimistic_no_duplication (sched : List (Tid × Act)) (s : Optimistic.St) (os : List (Tid × Obs))
    (h : Optimistic.model.run Optimistic.init sched = some (s, os)) :
    ∃ extra : List (OpRec GOp GRet),
      (∀ e ∈ extra, pendingOf os e.tid = some (e.op, e.inv) ∧ e.res = os.length ∧
          Optimistic.postRet (s.pc e.tid) = some e.ret) ∧
      extra.Pairwise (fun a b => a.tid ≠ b.tid) ∧
      ∀ v, (historyOf os).countP (isDeqOf v) ≤ (historyOf os ++ extra).countP (isEnq v) :=
  Optimistic.optimistic_no_duplication sched s os h

/-- `deq` answers "empty" only if the queue was empty at some instant during the call (hindsight).  For EVERY run: if
    a completed `deq` returned `[0]`, there is an instant `j` strictly between its call and its return such that in
    the state `s1` reached by the first `j` actions of the run (`EmptyAt`) the caller is about to perform the
    validating load of `m_pTail`, and the node `h` it has read from `m_pHead` is both `m_pHead` and `m_pTail`: the
    abstract queue is empty.  (At the later re-validation of `m_pHead`, where the result becomes definitive, the
    queue need not be empty any more: example `hindSched`.) -/
theorem C06_optimistic_empty_means_empty (sched : List (Tid × Act)) (s : Optimistic.St) (os : List (Tid × Obs))
    (h : Optimistic.model.run Optimistic.init sched = some (s, os)) (r : OpRec GOp GRet)
    (hr : r ∈ historyOf os) (hret : r.ret = [0]) :
    ∃ j s1, r.inv < j ∧ j < r.res ∧ Optimistic.model.run Optimistic.init (sched.take j) = some (s1, os.take j) ∧
      Optimistic.EmptyAt s1 r.tid ∧ Optimistic.absQueue s1 = [] :=
  Optimistic.optimistic_empty_hindsight sched s os h r hr hret

/-- Refinement: in a reachable state, the step at which thread `t` fixes its result `r` — tentatively for the empty
    dequeue — (successful CAS on `m_pTail` of `enq`, successful CAS on `m_pHead` of `deq`, validating load of
    `m_pTail` returning `pHead` of `deq`) is exactly the `fifo` transition of `t`'s operation with result `r` on the
    abstract queue; every other step — all of `fix_list`, every store to `m_pPrev` — leaves the abstract queue
    unchanged. -/
theorem C06_optimistic_lp_refines (s s' : Optimistic.St) (t : Tid) (ev : Ev)
    (hreach : Optimistic.model.Reachable Optimistic.init s) (hs : Optimistic.step s t = some (s', ev)) :
    (Optimistic.lpRet (s.pc t) = none → ∀ r, Optimistic.lpRet (s'.pc t) = some r →
      ∃ op, Optimistic.opOf s.val (s.pc t) = some op ∧
        fifo.next (Optimistic.absQueue s) op r = some (Optimistic.absQueue s')) ∧
    ((Optimistic.lpRet (s.pc t) ≠ none ∨ Optimistic.lpRet (s'.pc t) = none) →
      Optimistic.absQueue s' = Optimistic.absQueue s) :=
  Optimistic.step_refines (Optimistic.sinv_reachable s hreach) hs

/-- `fix_list` never dereferences a null pointer: the walk from `pTail` along `m_pNext` reaches `pHead` while
    `pHead` is still `m_pHead` (and stops at the first check after `m_pHead` has moved). -/
theorem C06_optimistic_no_crash (s : Optimistic.St) (hreach : Optimistic.model.Reachable Optimistic.init s)
    (t : Tid) : s.pc t ≠ .crash :=
  Optimistic.no_crash s hreach t

/-- Structure of the reachable states: following `m_pNext` from `m_pTail` one reaches `m_pHead`; the nodes on the
    way (`absNodes`: `tail` first, `head` last) are distinct; `tail == head` means that the queue is empty. -/
theorem C06_optimistic_segment (s : Optimistic.St) (hreach : Optimistic.model.Reachable Optimistic.init s) :
    (Optimistic.absNodes s).Nodup ∧ (∃ r, Optimistic.absNodes s = s.tail :: r) ∧
    (Optimistic.absNodes s).getLast? = some s.head ∧ (s.tail = s.head → Optimistic.absQueue s = []) :=
  Optimistic.reachable_segment s hreach

/-! ### Non-vacuity -/

def steps (t : Tid) (n : Nat) : List (Tid × Act) := List.replicate n (t, .step)

/-- `fix_list` at work.  Thread 0 has swung `m_pTail` to its node `n1` but is delayed before the optimistic store
    `n0.prev = n1`.  Thread 1 dequeues: it finds `tail != head` but `head->prev == null`, walks from the tail
    (`ld n1 n0`), re-validates `head` and repairs `n0.prev` itself (`st p0 n1`). -/
def fixSched : List (Tid × Act) :=
  [(0, .invoke ⟨"enq", [7]⟩)] ++ steps 0 4 ++ [(1, .invoke ⟨"deq", []⟩)] ++ steps 1 11

example : (Optimistic.model.run Optimistic.init fixSched).map (·.2) = some
    [(0, .call ⟨"enq", [7]⟩),                 -- T 0 C enq [7]
     (0, .ev ⟨"ld", "tail", "n0", ""⟩),       -- T 0 A ld tail n0
     (0, .ev ⟨"ld", "tail", "n0", ""⟩),       -- T 0 A ld tail n0
     (0, .ev ⟨"st", "n1", "n0", ""⟩),         -- T 0 A st n1 n0              (pNew->m_pNext = pTail)
     (0, .ev ⟨"cas+", "tail", "n0", "n1"⟩),   -- T 0 A cas+ tail n0 n1       (linearization point of enq 7)
     (1, .call ⟨"deq", []⟩),                  -- T 1 C deq []
     (1, .ev ⟨"ld", "head", "n0", ""⟩),
     (1, .ev ⟨"ld", "head", "n0", ""⟩),
     (1, .ev ⟨"ld", "tail", "n1", ""⟩),
     (1, .ev ⟨"ld", "tail", "n1", ""⟩),
     (1, .ev ⟨"ld", "p0", "null", ""⟩),       -- T 1 A ld p0 null            (head->prev not yet written)
     (1, .ev ⟨"ld", "p0", "null", ""⟩),
     (1, .ev ⟨"ld", "head", "n0", ""⟩),       --                             (head unchanged: fix_list)
     (1, .ev ⟨"ld", "n1", "n0", ""⟩),         -- T 1 A ld n1 n0              (fix_list: pCurNode->m_pNext)
     (1, .ev ⟨"ld", "n1", "n0", ""⟩),
     (1, .ev ⟨"ld", "head", "n0", ""⟩),
     (1, .ev ⟨"st", "p0", "n1", ""⟩)]         -- T 1 A st p0 n1              (repair)
    := by decide

example : (Optimistic.model.run Optimistic.init fixSched).map
    (fun r => (Optimistic.absQueue r.1, Optimistic.absNodes r.1, r.1.head, r.1.tail, r.1.prev 0)) =
    some ([7], [1, 0], 0, 1, some 1) := by decide

example : (Optimistic.model.run Optimistic.init fixSched).map (fun r => r.1.pc 1) = some .deqLdH1 := by decide

/-- ... then thread 1 restarts, finds `n0.prev = n1`, checks `n1.next == n0` and dequeues; thread 0's late store
    `n0.prev = n1` hits a node that is no longer in the queue. -/
def fixRest : List (Tid × Act) := steps 1 9 ++ [(1, .ret)] ++ steps 0 1 ++ [(0, .ret)]

example : (Optimistic.model.run Optimistic.init (fixSched ++ fixRest)).map (fun r => r.2.drop 17) = some
    [(1, .ev ⟨"ld", "head", "n0", ""⟩),
     (1, .ev ⟨"ld", "head", "n0", ""⟩),
     (1, .ev ⟨"ld", "tail", "n1", ""⟩),
     (1, .ev ⟨"ld", "tail", "n1", ""⟩),
     (1, .ev ⟨"ld", "p0", "n1", ""⟩),
     (1, .ev ⟨"ld", "p0", "n1", ""⟩),
     (1, .ev ⟨"ld", "head", "n0", ""⟩),
     (1, .ev ⟨"ld", "n1", "n0", ""⟩),         -- pFirstNodePrev->m_pNext == pHead
     (1, .ev ⟨"cas+", "head", "n0", "n1"⟩),   -- linearization point of deq
     (1, .ret [1, 7]),
     (0, .ev ⟨"st", "p0", "n1", ""⟩),         -- the delayed optimistic store
     (0, .ret [1])] := by decide

example : (Optimistic.model.run Optimistic.init (fixSched ++ fixRest)).map
    (fun r => (historyOf r.2, linCheck fifo (historyOf r.2), Optimistic.absQueue r.1, r.1.head, r.1.tail)) =
    some ([⟨1, ⟨"deq", []⟩, [1, 7], 5, 26⟩, ⟨0, ⟨"enq", [7]⟩, [1], 0, 28⟩], true, [], 1, 1) := by decide

/-- Hindsight.  Thread 0's `deq` reads `head = n0` and `tail = n0` (tentative linearization point: the queue IS
    empty); then thread 1 enqueues 3 completely; then thread 0 reads `n0.prev`, re-validates `head == n0`
    successfully and answers "empty" — at that step the abstract queue is `[3]`. -/
def hindSched : List (Tid × Act) :=
  [(0, .invoke ⟨"deq", []⟩)] ++ steps 0 4 ++ [(1, .invoke ⟨"enq", [3]⟩)] ++ steps 1 5 ++ [(1, .ret)]

example : (Optimistic.model.run Optimistic.init hindSched).map (fun r => (Optimistic.absQueue r.1, r.1.pc 0)) =
    some ([3], .deqPv1 0 0) := by decide

example : (Optimistic.model.run Optimistic.init (hindSched ++ steps 0 3 ++ [(0, .ret)])).map
    (fun r => (r.2.drop 12, historyOf r.2)) = some
    ([(0, .ev ⟨"ld", "p0", "n1", ""⟩),
      (0, .ev ⟨"ld", "p0", "n1", ""⟩),
      (0, .ev ⟨"ld", "head", "n0", ""⟩),      -- re-validation succeeds: "empty" is definitive
      (0, .ret [0])],
     [⟨1, ⟨"enq", [3]⟩, [1], 5, 11⟩, ⟨0, ⟨"deq", []⟩, [0], 0, 15⟩]) := by decide

example : linCheck fifo [⟨1, ⟨"enq", [3]⟩, [1], 5, 11⟩, ⟨0, ⟨"deq", []⟩, [0], 0, 15⟩] = true := by decide

/-- A tentative linearization that is withdrawn.  As above, but thread 2 also dequeues the 3 before thread 0
    re-validates: `head` has moved to `n1`, the re-validation fails (`ld head n1`), thread 0 restarts, finds
    `head == tail == n1` and answers "empty" with a new linearization point. -/
def withdrawSched : List (Tid × Act) :=
  hindSched ++ [(2, .invoke ⟨"deq", []⟩)] ++ steps 2 9 ++ [(2, .ret)] ++ steps 0 10 ++ [(0, .ret)]

example : (Optimistic.model.run Optimistic.init withdrawSched).map (fun r => r.2.filter (fun x => x.1 == 0)) = some
    [(0, .call ⟨"deq", []⟩),
     (0, .ev ⟨"ld", "head", "n0", ""⟩),
     (0, .ev ⟨"ld", "head", "n0", ""⟩),
     (0, .ev ⟨"ld", "tail", "n0", ""⟩),
     (0, .ev ⟨"ld", "tail", "n0", ""⟩),       -- tentative linearization point (queue empty)
     (0, .ev ⟨"ld", "p0", "n1", ""⟩),
     (0, .ev ⟨"ld", "p0", "n1", ""⟩),
     (0, .ev ⟨"ld", "head", "n1", ""⟩),       -- re-validation fails: withdrawn, restart
     (0, .ev ⟨"ld", "head", "n1", ""⟩),
     (0, .ev ⟨"ld", "head", "n1", ""⟩),
     (0, .ev ⟨"ld", "tail", "n1", ""⟩),
     (0, .ev ⟨"ld", "tail", "n1", ""⟩),       -- linearization point of the empty deq
     (0, .ev ⟨"ld", "p1", "null", ""⟩),
     (0, .ev ⟨"ld", "p1", "null", ""⟩),
     (0, .ev ⟨"ld", "head", "n1", ""⟩),       -- re-validation succeeds
     (0, .ret [0])] := by decide

example : (Optimistic.model.run Optimistic.init withdrawSched).map (fun r => linCheck fifo (historyOf r.2)) =
    some true := by decide

end CdsVerif.Props.C06Optimistic

// Instrumented replacement for the `atomics` namespace of libcds.
// Included by cds/algo/atomic.h when KHIZMAX_LIBCDS_VERIF is defined (hook 1).
//
// Every operation on an atomics::atomic<T> is
//   (a) a scheduling point of the deterministic scheduler (vsched.cpp),
//   (b) performed on a plain object (threads are serialised by a baton, so
//       exactly one of them runs at any time),
//   (c) appended to the trace of the running case.
// Threads that are not registered with the scheduler (the main thread during
// set-up and tear-down) perform the operation directly and leave no trace.
#ifndef KHIZMAX_LIBCDS_VERIF_ATOMIC_H
#define KHIZMAX_LIBCDS_VERIF_ATOMIC_H

#include <atomic>
#include <cstddef>
#include <cstdint>
#include <cstring>
#include <type_traits>

namespace khizmax_libcds_verif {

enum OpKind : uint8_t {
    K_LD = 0, K_ST, K_XCHG, K_CAS_OK, K_CAS_FAIL,
    K_ADD, K_SUB, K_AND, K_OR, K_XOR, K_FENCE,
    K_CALL, K_RET, K_NOTE, K_PSEUDO
};

// scheduling point; returns true when the calling thread is scheduled (traced)
bool pre_op( void const* addr, int next_kind = -1 ) noexcept;
// record the operation just performed. `a` = value read / expected / old, `b` = value written / argument
void post_op( OpKind k, void const* addr, unsigned size, bool isptr, void const* a, void const* b ) noexcept;
// called from back-off strategies (hook 2): the caller is spinning
void spin_hint() noexcept;

namespace atomics {

    using std::memory_order;
    using std::memory_order_relaxed;
    using std::memory_order_consume;
    using std::memory_order_acquire;
    using std::memory_order_release;
    using std::memory_order_acq_rel;
    using std::memory_order_seq_cst;

    inline void atomic_thread_fence( memory_order ) noexcept
    {
        if ( pre_op( nullptr ))
            post_op( K_FENCE, nullptr, 0, false, nullptr, nullptr );
    }
    inline void atomic_signal_fence( memory_order ) noexcept {}

    template <typename T>
    class atomic
    {
        T v_;
        static constexpr bool c_isptr = std::is_pointer<T>::value;

        T* self() const noexcept { return const_cast<T*>( &v_ ); }
        T* self() const volatile noexcept { return const_cast<T*>( &v_ ); }

        static bool same( T const& a, T const& b ) noexcept { return std::memcmp( &a, &b, sizeof( T )) == 0; }

        T do_load() const noexcept
        {
            bool tr = pre_op( &v_ );
            T r = *self();
            if ( tr ) post_op( K_LD, &v_, sizeof( T ), c_isptr, &r, nullptr );
            return r;
        }
        void do_store( T v ) noexcept
        {
            bool tr = pre_op( &v_ );
            T old = v_;
            v_ = v;
            if ( tr ) post_op( K_ST, &v_, sizeof( T ), c_isptr, &old, &v );
        }
        T do_xchg( T v ) noexcept
        {
            bool tr = pre_op( &v_, K_XCHG );
            T old = v_;
            v_ = v;
            if ( tr ) post_op( K_XCHG, &v_, sizeof( T ), c_isptr, &old, &v );
            return old;
        }
        bool do_cas( T& expected, T desired ) noexcept
        {
            bool tr = pre_op( &v_, K_CAS_OK );
            T cur = v_;
            if ( same( cur, expected )) {
                v_ = desired;
                if ( tr ) post_op( K_CAS_OK, &v_, sizeof( T ), c_isptr, &cur, &desired );
                return true;
            }
            if ( tr ) post_op( K_CAS_FAIL, &v_, sizeof( T ), c_isptr, &cur, &expected );
            expected = cur;
            return false;
        }
        template <typename F>
        T do_rmw( OpKind k, T arg, F f ) noexcept
        {
            bool tr = pre_op( &v_ );
            T old = v_;
            v_ = f( old, arg );
            if ( tr ) post_op( k, &v_, sizeof( T ), c_isptr, &old, &arg );
            return old;
        }

    public:
        atomic() noexcept = default;
        constexpr atomic( T v ) noexcept : v_( v ) {}
        atomic( atomic const& ) = delete;
        atomic& operator=( atomic const& ) = delete;

        bool is_lock_free() const noexcept { return true; }
        bool is_lock_free() const volatile noexcept { return true; }

        T load( memory_order = memory_order_seq_cst ) const noexcept { return do_load(); }
        T load( memory_order = memory_order_seq_cst ) const volatile noexcept { return const_cast<atomic const*>( this )->do_load(); }
        void store( T v, memory_order = memory_order_seq_cst ) noexcept { do_store( v ); }
        void store( T v, memory_order = memory_order_seq_cst ) volatile noexcept { const_cast<atomic*>( this )->do_store( v ); }
        T exchange( T v, memory_order = memory_order_seq_cst ) noexcept { return do_xchg( v ); }
        T exchange( T v, memory_order = memory_order_seq_cst ) volatile noexcept { return const_cast<atomic*>( this )->do_xchg( v ); }

        bool compare_exchange_weak( T& e, T d, memory_order, memory_order ) noexcept { return do_cas( e, d ); }
        bool compare_exchange_weak( T& e, T d, memory_order = memory_order_seq_cst ) noexcept { return do_cas( e, d ); }
        bool compare_exchange_strong( T& e, T d, memory_order, memory_order ) noexcept { return do_cas( e, d ); }
        bool compare_exchange_strong( T& e, T d, memory_order = memory_order_seq_cst ) noexcept { return do_cas( e, d ); }
        bool compare_exchange_weak( T& e, T d, memory_order, memory_order ) volatile noexcept { return const_cast<atomic*>( this )->do_cas( e, d ); }
        bool compare_exchange_weak( T& e, T d, memory_order = memory_order_seq_cst ) volatile noexcept { return const_cast<atomic*>( this )->do_cas( e, d ); }
        bool compare_exchange_strong( T& e, T d, memory_order, memory_order ) volatile noexcept { return const_cast<atomic*>( this )->do_cas( e, d ); }
        bool compare_exchange_strong( T& e, T d, memory_order = memory_order_seq_cst ) volatile noexcept { return const_cast<atomic*>( this )->do_cas( e, d ); }

        operator T() const noexcept { return load(); }
        operator T() const volatile noexcept { return load(); }
        T operator=( T v ) noexcept { store( v ); return v; }
        T operator=( T v ) volatile noexcept { store( v ); return v; }

        // arithmetic (integral and pointer types)
        template <typename U = T>
        typename std::enable_if< std::is_integral<U>::value, T >::type
        fetch_add( T a, memory_order = memory_order_seq_cst ) noexcept { return do_rmw( K_ADD, a, []( T x, T y ) { return T( x + y ); } ); }
        template <typename U = T>
        typename std::enable_if< std::is_integral<U>::value, T >::type
        fetch_sub( T a, memory_order = memory_order_seq_cst ) noexcept { return do_rmw( K_SUB, a, []( T x, T y ) { return T( x - y ); } ); }
        template <typename U = T>
        typename std::enable_if< std::is_integral<U>::value, T >::type
        fetch_and( T a, memory_order = memory_order_seq_cst ) noexcept { return do_rmw( K_AND, a, []( T x, T y ) { return T( x & y ); } ); }
        template <typename U = T>
        typename std::enable_if< std::is_integral<U>::value, T >::type
        fetch_or( T a, memory_order = memory_order_seq_cst ) noexcept { return do_rmw( K_OR, a, []( T x, T y ) { return T( x | y ); } ); }
        template <typename U = T>
        typename std::enable_if< std::is_integral<U>::value, T >::type
        fetch_xor( T a, memory_order = memory_order_seq_cst ) noexcept { return do_rmw( K_XOR, a, []( T x, T y ) { return T( x ^ y ); } ); }

        template <typename U = T>
        typename std::enable_if< std::is_pointer<U>::value, T >::type
        fetch_add( std::ptrdiff_t a, memory_order = memory_order_seq_cst ) noexcept
        {
            bool tr = pre_op( &v_ );
            T old = v_;
            v_ = old + a;
            if ( tr ) { T nv = v_; post_op( K_XCHG, &v_, sizeof( T ), true, &old, &nv ); }
            return old;
        }
        template <typename U = T>
        typename std::enable_if< std::is_pointer<U>::value, T >::type
        fetch_sub( std::ptrdiff_t a, memory_order = memory_order_seq_cst ) noexcept
        {
            bool tr = pre_op( &v_ );
            T old = v_;
            v_ = old - a;
            if ( tr ) { T nv = v_; post_op( K_XCHG, &v_, sizeof( T ), true, &old, &nv ); }
            return old;
        }

        template <typename U = T>
        typename std::enable_if< std::is_integral<U>::value, T >::type operator++() noexcept { return T( fetch_add( 1 ) + 1 ); }
        template <typename U = T>
        typename std::enable_if< std::is_integral<U>::value, T >::type operator++( int ) noexcept { return fetch_add( 1 ); }
        template <typename U = T>
        typename std::enable_if< std::is_integral<U>::value, T >::type operator--() noexcept { return T( fetch_sub( 1 ) - 1 ); }
        template <typename U = T>
        typename std::enable_if< std::is_integral<U>::value, T >::type operator--( int ) noexcept { return fetch_sub( 1 ); }
        template <typename U = T>
        typename std::enable_if< std::is_integral<U>::value, T >::type operator+=( T a ) noexcept { return T( fetch_add( a ) + a ); }
        template <typename U = T>
        typename std::enable_if< std::is_integral<U>::value, T >::type operator-=( T a ) noexcept { return T( fetch_sub( a ) - a ); }
        template <typename U = T>
        typename std::enable_if< std::is_integral<U>::value, T >::type operator&=( T a ) noexcept { return T( fetch_and( a ) & a ); }
        template <typename U = T>
        typename std::enable_if< std::is_integral<U>::value, T >::type operator|=( T a ) noexcept { return T( fetch_or( a ) | a ); }
        template <typename U = T>
        typename std::enable_if< std::is_integral<U>::value, T >::type operator^=( T a ) noexcept { return T( fetch_xor( a ) ^ a ); }
    };

    typedef atomic<std::size_t>   atomic_size_t;
    typedef atomic<bool>          atomic_bool;
    typedef atomic<int>           atomic_int;
    typedef atomic<unsigned>      atomic_uint;
    typedef atomic<long>          atomic_long;
    typedef atomic<unsigned long> atomic_ulong;

} // namespace atomics
} // namespace khizmax_libcds_verif

#endif

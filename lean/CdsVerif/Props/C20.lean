/-
  C20 — single-threaded API behaviour matches the reference container model.
  The reference model is `Spec.mapStep` (sets/maps) and the queue/stack/deque/priority-queue step functions;
  the laws quoted by the property are theorems about it.
-/
import CdsVerif.Base.Spec
namespace CdsVerif.Props.C20
open CdsVerif.Lin CdsVerif.Spec

/-- update() returns (true,true) exactly when it inserted … -/
theorem C20_update_inserted (m : MapSt) (k v allow : Int) (m' : MapSt) (r : GRet)
    (h : mapStep m ⟨"update", [k, v, allow]⟩ = some (m', r)) :
    r = [1, 1] ↔ (mfind m k = none ∧ allow ≠ 0) := update_ret_inserted m k v allow m' r h

/-- … (true,false) when it updated an existing item … -/
theorem C20_update_updated (m : MapSt) (k v allow : Int) (m' : MapSt) (r : GRet)
    (h : mapStep m ⟨"update", [k, v, allow]⟩ = some (m', r)) :
    r = [1, 0] ↔ (mfind m k).isSome := update_ret_updated m k v allow m' r h

/-- … and (false,false) when the key was absent and insertion was disallowed. -/
theorem C20_update_refused (m : MapSt) (k v allow : Int) (m' : MapSt) (r : GRet)
    (h : mapStep m ⟨"update", [k, v, allow]⟩ = some (m', r)) :
    r = [0, 0] ↔ (mfind m k = none ∧ allow = 0) := update_ret_refused m k v allow m' r h

/-- A sequential history is accepted by the driver iff it is a legal run of the reference model. -/
theorem C20_history_oracle_exact (ops : List (OpRec GOp GRet)) (hwf : ∀ o ∈ ops, o.inv ≤ o.res) :
    linCheck map ops = true ↔ Linearizable map ops := linCheck_iff _ ops hwf

end CdsVerif.Props.C20

"""Per-property check definitions.  TABLE maps a property id to (level, function)."""
import json
import os
import re
import subprocess

import vlib
import steps
import fcbatch
from steps import lean_step, tie_H, tie_A, TRUSTED_COMMON


def base_cov(res, modelled_not_verified, partial=()):
    res.cov["trusted_base"] = TRUSTED_COMMON + ["modelled, not verified: " + m for m in modelled_not_verified]
    res.cov["partial_statements"] = list(partial)
    res.cov["rule"] = ("cases = (client program, schedule) pairs generated from VERIF_SEED by splitmix64; "
                       "distinct = distinct (variant, hash of the (thread, kind, location) sequence of atomic operations); "
                       "non-trivial = the execution contains at least one failed CAS or one back-off (a contended step)")
    res.assumptions = ["SC interleavings only", "data-race freedom of non-atomic fields"]


FC_ORACLE = r"^flat combining"      # publication-record reclamation: judged by C23, not by the container properties


def hist_runs(thorough, threads=3, ops=4, enum_cases=(8, 20), mixed=(2000, 30000), extra=()):
    return [
        {"args": ["--mode", "mixed", "--threads", str(threads), "--ops", str(ops)] + list(extra), "cases": mixed[1] if thorough else mixed[0]},
        {"args": ["--mode", "enum2" if thorough else "enum1", "--threads", "2", "--ops", "3"] + list(extra), "cases": enum_cases[1] if thorough else enum_cases[0]},
    ]


def c06(res, thorough):
    base_cov(res, ["memory orders", "back-off timing", "allocators of container:: wrappers", "FC wait strategies other than backoff",
                   "MSQueue: Lean machine (Algo/MSQueue) proved linearizable for all schedules (hindsight LP of the empty dequeue included) and tied by trace conformance; garbage-collected heap (no node reuse: what C01/C02 provide), HP stores not modelled, weak CAS never fails spuriously",
                   "MoirQueue, RWQueue (two-lock queue) and OptimisticQueue (prev links as hints, fix_list): Lean machines over a shared generic ghost-log toolkit (Algo/QueueLin), each proved linearizable to Spec.fifo for all schedules incl. the hindsight point of the empty dequeue, "
                   "no invention / no duplication, and each tied by trace conformance (imoir_hp, rwqueue_named, ioptimistic_named); same heap / CAS assumptions as MSQueue",
                   "FCQueue without elimination: C06_fcqueue_linearizable (generic flat-combining theorem of C10 instantiated with Spec.fifo); with elimination: fixed-batch theorems + differential tie + histories",
                   "BasketQueue: Lean machine (Algo/Basket: first CAS, the try_again basket loop with the re-stored next pointer, tail fixing, marking dequeue with the hop count, free_chain; m_nMaxHops a parameter) with an inductive invariant "
                   "(19 clauses, 38 program points) proved for all schedules: Herlihy-Wing linearizable to the UNORDERED pool (C06_basket_pool_linearizable: conservation, no duplication, no invention, 'empty' answered only at an instant where nothing is present: "
                   "C06_basket_empty_means_empty), every dequeue LP is the fifo transition of the list-order queue and every enqueue LP an insertion into it (C06_basket_lp_refines); tied by trace conformance (hidden variant ibasket_named). "
                   "FIFO order among OVERLAPPING basket enqueues is not a theorem (the enqueue must be linearized before its own CAS, a future-dependent LP): C06_basket_linearizable_partial states the gap; decided by histories against Spec.fifo "
                   "(CAS-biased 4-thread runs, final drain)",
                   "container:: wrappers: same algorithms behind an allocator; decided by histories"],
             partial=["BasketQueue FIFO order among overlapping enqueues as a theorem: not proved (pool linearizability + per-step refinement proved); decided on explored schedules", "FCQueue elimination under concurrency: fixed-batch theorems only"])
    lean_step(res, ["CdsVerif.Props.C06", "CdsVerif.Props.C06MSQueue", "CdsVerif.Props.C06Moir", "CdsVerif.Props.C06RWQueue", "CdsVerif.Props.C06Optimistic", "CdsVerif.Props.C06Basket", "CdsVerif.Props.C10FCLin"], thorough)
    tie_A(res, "queue", "basket", [{"args": ["--mode", "mixed", "--threads", "4", "--ops", "4", "--variant", "ibasket_named"], "cases": 10000 if thorough else 1200},
                                   {"args": ["--mode", "cas", "--threads", "4", "--ops", "3", "--variant", "ibasket_named"], "cases": 8000 if thorough else 1000},
                                   {"args": ["--mode", "enum2" if thorough else "enum1", "--threads", "2", "--ops", "3", "--variant", "ibasket_named"], "cases": 10 if thorough else 5}])
    for v, m in (("imoir_hp", "moir"), ("rwqueue_named", "rwqueue"), ("ioptimistic_named", "optimistic")):
        tie_A(res, "queue", m, [{"args": ["--mode", "mixed", "--threads", "4", "--ops", "4", "--variant", v], "cases": 10000 if thorough else 1200},
                                {"args": ["--mode", "cas", "--threads", "3", "--ops", "4", "--variant", v], "cases": 6000 if thorough else 800},
                                {"args": ["--mode", "enum2" if thorough else "enum1", "--threads", "2", "--ops", "3", "--variant", v], "cases": 10 if thorough else 5}])
    fcbatch.fcbatch_check(res, thorough, kinds=["queue"])
    # tie A: the Lean machine whose linearizability is proved (Algo/MSQueue) must accept the real traces step by step
    for v in ("imsqueue_hp", "imsqueue_dhp"):
        tie_A(res, "queue", "msqueue", [{"args": ["--mode", "mixed", "--threads", "4", "--ops", "4", "--variant", v], "cases": 10000 if thorough else 1200},
                                        {"args": ["--mode", "enum2" if thorough else "enum1", "--threads", "2", "--ops", "3", "--variant", v], "cases": 10 if thorough else 5}])
    tie_H(res, "queue", hist_runs(thorough, 3, 4, (22, 44), (3000, 40000)), ignore_oracle=FC_ORACLE)
    # the queues without a machine: three-party races (e.g. two enqueuers losing the same tail CAS while the winner has not
    # swung the tail yet: BasketQueue's basket) need several preemptions right at CAS operations - CAS-biased schedules, 4 threads
    for v in ("basket_hp", "ibasket_hp", "moir_hp", "imoir_hp", "optimistic_hp", "ioptimistic_hp"):
        tie_H(res, "queue", [{"args": ["--mode", "cas", "--threads", "4", "--ops", "3", "--variant", v], "cases": 12000 if thorough else 1500}], label="queue-cas")


def c07(res, thorough):
    base_cov(res, ["memory orders", "back-off timing", "Algo/Vyukov: Lean machine of enqueue_with/dequeue_with (capacity 2^k, any k >= 1, any number of threads) proved linearizable to Spec.bfifo for all schedules, with full/empty instants, position bounds, no-overwrite and cell ownership; "
                   "tied by trace conformance (every atomic load/store/CAS of m_posEnqueue, m_posDequeue and the cell sequences, values included, and every result) and by histories against Spec.bfifo; "
                   "unbounded positions (no 2^64 wrap), weak CAS never fails spuriously; the single-consumer front/pop_front path has no model and is decided by histories only",
                   "capacity 1 is outside the property's quantifier (2..8) and outside the queue's own precondition"],
             partial=["single_consumer front()/pop_front(): no algorithm model"])
    lean_step(res, ["CdsVerif.Props.C07", "CdsVerif.Props.C07Vyukov"], thorough)
    # tie A: the Lean machine whose linearizability is proved (Algo/Vyukov) must accept the real traces step by step
    for v in ("dyn", "static2", "static4", "static8", "idyn"):
        tie_A(res, "vyukov", "vyukov", [{"args": ["--mode", "mixed", "--threads", "4", "--ops", "5", "--variant", v], "cases": 6000 if thorough else 600},
                                        {"args": ["--mode", "enum2" if thorough else "enum1", "--threads", "2", "--ops", "3", "--variant", v], "cases": 6 if thorough else 2}])
    tie_H(res, "vyukov", hist_runs(thorough, 4, 6, (12, 24), (3000, 40000)))


def c10(res, thorough):
    base_cov(res, ["memory orders", "FC wait strategies other than backoff", "std::deque / boost deque themselves",
                   "the flat-combining kernel is judged by C23; Algo/FC/KernelG is that kernel machine over an ARBITRARY deterministic sequential object (fc_apply = the object's step under the lock, result stored in the record): "
                   "C10_fc_linearizable (Herlihy-Wing, pending operations handled, linearization point = the exec step on the operation's record, in general performed by another thread) and the corollary C10_fcdeque_linearizable (FCDeque without elimination, Spec.deque) hold for all schedules; "
                   "tied by trace conformance on the real kernel driving a std::deque",
                   "Algo/FC/Batch is a hand transcription of FCDeque::fc_process / fc_apply (fixed batch: requests arriving during the walk are not modelled); C10_batch_refines / C10_session_refines / C10_collide_rule are theorems about it; "
                   "it is tied to the code by a differential run (the REAL fc_process / fc_apply / combining pass on hand-built publication lists against `cdsdriver fcbatch`, results, elimination-or-apply flag per record, final content and collision count compared) and by the deque client's histories under the elimination variants"],
             partial=["FCDeque WITH elimination under concurrency: the collide rule and 'a batch refines a permutation run by Spec.deque' are theorems about a fixed batch (tied by the differential run); lifting them to the concurrent publication list (requests arriving during the walk, both operations of a collided pair logged at the collision) is not proved and is decided by histories of the elimination variants"])
    lean_step(res, ["CdsVerif.Props.C10", "CdsVerif.Props.C10FCLin"], thorough)       # Algo/FC/Batch (elimination pass, batch application) and Algo/FC/KernelG (kernel over an arbitrary sequential object)
    from fckernel_pre import fckernel_pre
    # tie A: the generic kernel machine instantiated with the deque object must accept real traces of the kernel driving a std::deque with FCDeque's operation codes
    tie_A(res, "fckernel", "fckernelg", [
        {"args": ["--container", "deque", "--mode", "mixed", "--threads", "4", "--ops", "4"], "cases": 12000 if thorough else 2000},
        {"args": ["--container", "deque", "--mode", "cas", "--threads", "4", "--ops", "3"], "cases": 5000 if thorough else 800},
        {"args": ["--container", "deque", "--mode", "enum1", "--threads", "3", "--ops", "2"], "cases": 8 if thorough else 3}], label="fckernel:deque", pre=fckernel_pre)
    # tie D for the batch model: real fc_process / fc_apply on hand-built publication lists vs Algo/FC/Batch (cdsdriver fcbatch)
    fcbatch.fcbatch_check(res, thorough, kinds=["deque"])
    tie_H(res, "deque", hist_runs(thorough, 3, 4, (8, 16), (2500, 30000)), ignore_oracle=FC_ORACLE)


def c11(res, thorough):
    base_cov(res, ["memory orders", "std::priority_queue", "MSPriorityQueue: Lean machine (Algo/MSPQ: size lock, per-node locks, tags, bit-reversed slot allocation = the counter of C26) proved for all schedules and capacities 2^k-1: lock discipline, array shape, multiset conservation (no loss, no duplication), push fails only when all capacity slots hold an item, pop fails only when empty, heap order modulo owner tags and sifting pops; "
                   "tied by trace conformance (hidden variant imspq_named); linearizability of overlap-free histories is NOT a theorem (the representation invariant at quiescence is): it is decided by histories; histories without push/pop overlap are generated by construction (pre-filled pops-only and pushes-only-then-drain) and judged against Spec.maxpq; histories with overlap are judged by a conservation oracle only (every pushed item popped exactly once after a drain; a failed push implies capacity() items can have been present)"],
             partial=["MSPriorityQueue: linearizability of histories without push/pop overlap as a theorem (ghost log of linearization points): not proved; C11_mspq_sequential_linearizable_partial states the representation invariant at quiescence"])
    lean_step(res, ["CdsVerif.Props.C11", "CdsVerif.Props.C11MSPQ"], thorough)
    fcbatch.fcbatch_check(res, thorough, kinds=["pq"])
    # tie A: the MSPriorityQueue machine (Algo/MSPQ) must accept the real traces (lock words, results, pre-fill and final drain)
    tie_A(res, "pqueue", "mspq", [{"args": ["--mode", "mixed", "--threads", "4", "--ops", "5", "--variant", "imspq_named"], "cases": 12000 if thorough else 1500},
                                  {"args": ["--mode", "enum2" if thorough else "enum1", "--threads", "2", "--ops", "3", "--variant", "imspq_named"], "cases": 8 if thorough else 3}])
    tie_H(res, "pqueue", hist_runs(thorough, 3, 4, (10, 20), (2500, 30000)), ignore_oracle=FC_ORACLE)
    # push || pop overlap: no order is claimed, only conservation and "push fails only when full" (client-side oracle)
    for v in ("mspq_mixed", "imspq_mixed"):
        tie_H(res, "pqueue", [{"args": ["--mode", "mixed", "--threads", "4", "--ops", "4", "--variant", v], "cases": 12000 if thorough else 1200},
                              {"args": ["--mode", "enum2" if thorough else "enum1", "--threads", "2", "--ops", "3", "--variant", v], "cases": 8 if thorough else 3}], label="pqueue-overlap")


def c23(res, thorough):
    base_cov(res, ["memory orders", "wait strategies other than backoff (they add only wake-ups)", "boost::thread_specific_ptr (thread exit is driven by resetting the kernel's TLS slot under the scheduler, so the 'removed' store is a scheduling point)",
                   "Algo/FC/Kernel: 28-pc atomic-step machine of acquire_record / publish / combine / try_combining / combining / combining_pass / compact_list (first loop) / wait_for_combining / release_record, any number of threads, compact factor and pass count; "
                   "KInv (18 clauses) proved inductive; C23_mutex, C23_exactly_once, C23_response_after_exec, C23_pending_not_executed, C23_owner_republishes are theorems about it. Simplifications: publication list as a set with atomic link/unlink, index-order walk, one pre-allocated record per thread, no thread exit / removed state / freeing loop, no batch_combine / invoke_exclusive. "
                   "Algo/FC/KernelR refines it with the publication list in its REAL order (pNext loads, link and unlink CAS outcomes computed from the list, fc_apply as its own step, second loop of compact_list): its 27-clause invariant and the C23R_* theorems "
                   "(mutex, exactly once, response after execution, pending not executed, owner republishes, combiner assert) are proved on that machine directly, and THAT machine is tied to the real kernel by trace conformance (client fckernel: static records, counter container, every atomic operation on the lock, the records' words and the list links); "
                   "the containers' histories (a request executed twice, never, or answered early breaks linearizability) are a second tie; "
                   "reclamation is decided by a quarantining allocator that checks, at the moment a publication record is freed, whether it is still reachable from the publication list"],
             partial=["liveness of a deactivated request (only the safety form and the two enabling facts are proved)", "record reclamation clause: not in the kernel model; decided by the quarantining allocator on explored schedules",
                      "thread exit / removed state / record freeing and batch_combine are outside the machine"])
    lean_step(res, ["CdsVerif.Props.C23", "CdsVerif.Props.C23Batch", "CdsVerif.Props.C23Kernel", "CdsVerif.Props.C23KernelR"], thorough)
    from fckernel_pre import fckernel_pre
    # tie A: the refined kernel machine (Algo/FC/KernelR: publication list in its real order) must accept the real kernel's traces
    tie_A(res, "fckernel", "fckernel", [
        {"args": ["--mode", "mixed", "--threads", "4", "--ops", "3"], "cases": 20000 if thorough else 3000},
        {"args": ["--mode", "cas", "--threads", "4", "--ops", "3"], "cases": 8000 if thorough else 1200},
        {"args": ["--mode", "mixed", "--threads", "2", "--ops", "4"], "cases": 4000 if thorough else 600},
        {"args": ["--mode", "enum1", "--threads", "3", "--ops", "2"], "cases": 12 if thorough else 4}], pre=fckernel_pre)
    fcbatch.fcbatch_check(res, thorough)        # all four containers: deque, queue, stack, priority queue
    n = 12000 if thorough else 1500
    for client, variants in (("queue", ["fcqueue", "fcqueue_elim", "ifcqueue", "ifcqueue_elim"]), ("deque", ["fcdeque_std", "fcdeque_std_elim"]), ("pqueue", ["fcpq"])):
        for v in variants:
            tie_H(res, client, [{"args": ["--mode", "mixed", "--threads", "4", "--ops", "4", "--variant", v], "cases": n // len(variants)},
                                {"args": ["--mode", "enum2" if thorough else "enum1", "--threads", "2", "--ops", "2", "--variant", v], "cases": 6 if thorough else 3}],
                  label=client)


SMR_SAFETY = r"^(disposed-while-guarded|protect-returned-disposed|deref-of-disposed)"
SMR_ONCE = r"^(disposed-twice|disposed-but-never-retired|scan-left-unprotected-object|retired-object-disposed|unretired-object-disposed)"


def smr_runs(thorough, variants, extra=()):
    runs = []
    for v in variants:
        runs.append({"args": ["--mode", "mixed", "--threads", "4", "--ops", "5", "--variant", v] + list(extra), "cases": 8000 if thorough else 700})
        runs.append({"args": ["--mode", "enum2" if thorough else "enum1", "--threads", "2", "--ops", "3", "--variant", v] + list(extra), "cases": 4 if thorough else 2})
    return runs


def smr_cov(res, what):
    base_cov(res, ["memory orders and the choice of fence / membarrier in thread_data::sync()", "the TLS manager and cds::threading::Manager",
                   "std::sort / std::binary_search / std::lower_bound are modelled by their contracts",
                   "the interleaving-level argument is a Lean theorem over the protocol machine Algo/HP/Protocol (any H, T, R, every schedule and client program; static thread records, classic scan, "
                   "retire discipline built into the client operations); that machine is tied to the code by TRACE CONFORMANCE (hp_classic variants with static records: every load/store of a hazard slot and of a cell, the retired-array push and the "
                   "stage-2 decision of the scan with the objects it frees, replayed step by step, with the executable form of C01_guarded_never_disposed evaluated after every step), by the scan-decision differential runs and by the disposer-time oracle",
                   "attach/detach, record reuse, help_scan, in-place marking, DHP block lists: decided on explored schedules by the oracles only"] + what,
             partial=["attach/detach/help_scan and DHP storage growth as part of the proved machine: not modelled"])
    res.cov["rule"] = ("client programs over shared cells (protect / clear / swap-and-retire / scan / detach-reattach / deref) x seeded random, PCT and exhaustive <=1 (thorough <=2) preemption schedules; "
                       "H in 1..3, thread limit T, retired capacity in {default, H*T+1, H*T+2}, objects at odd addresses in the *_odd variants; "
                       "distinct = distinct (variant, atomic-operation sequence hash); non-trivial = contains a failed CAS or a back-off")


def hp_tie(res, thorough):
    """tie A for the hazard-pointer protocol machine (Algo/HP/Protocol; start state = the machine's own run of the
    client's prefill, reachability proved in Algo/HP/Replay): static thread records, classic scan, no reattach."""
    import hp_pre
    tie_A(res, "smr", "hp",
          [r for v in ("hp_classic", "hp_classic_odd") for r in (
              {"args": ["--static", "1", "--mode", "mixed", "--threads", "4", "--ops", "6", "--variant", v], "cases": 4000 if thorough else 400},
              {"args": ["--static", "1", "--mode", "enum2" if thorough else "enum1", "--threads", "2", "--ops", "3", "--variant", v], "cases": 6 if thorough else 3})],
          pre=hp_pre.hp_pre)


def c01(res, thorough):
    import purespec
    smr_cov(res, [])
    lean_step(res, ["CdsVerif.Props.C01", "CdsVerif.Props.C01Protocol", "CdsVerif.Algo.HP.Replay"], thorough)
    hp_tie(res, thorough)
    exe = steps.build_pure("hpscan", ["hpscan.cpp"], with_libcds=True)
    steps.tie_D(res, exe, [str(res.seed), str(6000 if thorough else 600)], ["seqeval"], purespec.compare_seq, "hpscan")
    tie_H(res, "smr", smr_runs(thorough, ["hp_inplace", "hp_classic", "hp_inplace_odd", "hp_classic_odd"]), judged=False, only_oracle=SMR_SAFETY)


def dhp_tie(res, thorough):
    """tie A for the DHP machine (Algo/DHP: guard storage growing by extension blocks, retired chain growing by blocks,
    scan over initial arrays and all linked extension blocks; static thread records)."""
    import dhp_pre
    tie_A(res, "smr", "dhp",
          [r for v in ("dhp", "dhp_many") for r in (
              {"args": ["--static", "1", "--mode", "mixed", "--threads", "4", "--ops", "6", "--variant", v], "cases": 4000 if thorough else 400},
              {"args": ["--static", "1", "--mode", "enum2" if thorough else "enum1", "--threads", "2", "--ops", "2", "--variant", v], "cases": 4 if thorough else 2})]
          + [{"args": ["--static", "1", "--mode", "mixed", "--threads", "3", "--ops", "5", "--variant", "dhp", "--grow", "200"], "cases": 6 if thorough else 3}],
          pre=dhp_pre.dhp_pre)


def c02(res, thorough):
    smr_cov(res, ["Algo/DHP: Lean machine of the dynamic hazard pointers with STATIC thread records: guard handles (galloc / gfree) over the initial array and extension blocks of B guards, "
                  "retired chain as blocks of RB entries with the code's extension rule, a pass = one load per slot of the initial array, the load of extended_list_, every slot of every linked block, then the decision; "
                  "C02_guarded_never_disposed, C02_extension_visible, C02_pass_reads_every_linked_slot, C02_disposed_once, C02_no_object_lost ... hold for every schedule, any initial guard count and any number of guards / retired objects; "
                  "tied by trace conformance (dhp and dhp_many variants, initial guard counts 4..32, up to 40 guards per thread, retired chains of two blocks through --grow)",
                  "detach / re-attach of records, help_scan and recycling of extension blocks through hp_allocator are not in the machine: decided by the disposer-time oracle on explored schedules"])
    lean_step(res, ["CdsVerif.Props.C02", "CdsVerif.Props.C02DHP", "CdsVerif.Algo.DHP.Replay"], thorough)
    dhp_tie(res, thorough)
    tie_H(res, "smr", smr_runs(thorough, ["dhp", "dhp_many"]), judged=False, only_oracle=SMR_SAFETY)


def c03(res, thorough):
    import purespec
    smr_cov(res, ["destruction of the singleton and help_scan adoption: decided by the end-of-case count oracle (every retired object disposed exactly once)"])
    lean_step(res, ["CdsVerif.Props.C03", "CdsVerif.Props.C01Protocol", "CdsVerif.Algo.HP.Replay", "CdsVerif.Props.C02DHP", "CdsVerif.Algo.DHP.Replay"], thorough)
    hp_tie(res, thorough)
    exe = steps.build_pure("hpscan", ["hpscan.cpp"], with_libcds=True)
    steps.tie_D(res, exe, [str(res.seed + 1), str(6000 if thorough else 600)], ["seqeval"], purespec.compare_seq, "hpscan")
    tie_H(res, "smr", smr_runs(thorough, ["hp_inplace", "hp_classic", "hp_inplace_odd", "hp_classic_odd", "dhp", "dhp_many"]), judged=False, only_oracle=SMR_ONCE)
    # retired chains that grow past one block (DHP): the run that found the double dispose of commit 323b567
    tie_H(res, "smr", [{"args": ["--static", "1", "--grow", "200", "--mode", "mixed", "--threads", "3", "--ops", "5", "--variant", "dhp"], "cases": 8 if thorough else 4}], judged=False, only_oracle=SMR_ONCE, label="smr-grow")
    dhp_tie(res, thorough)


SETMAP_MNV = ["memory orders", "back-off timing", "allocators and functor bodies (a functor body is not a scheduling point)",
              "every variant is decided by histories of the real code judged by the verified checker against Spec.map; the variants that additionally have a proved atomic-step machine tied by trace replay are named below",
              "documented update hazard of map forms (update(key, functor) links a default-constructed value before the functor runs): the *_updfn variants that expose it are excluded",
              "general_threaded and signal_buffered RCU flavours need OS primitives under the baton and are not run here",
              "client-side spin hints report libcds loops that wait without calling a back-off (liveness only)"]


def setmap_check(res, thorough, prop, client, threads=3, ops=4, mixed=(3000, 40000), enum_cases=(30, 60), spec="mapc", modules=(), mnv=(), partial=None, **kw):
    base_cov(res, SETMAP_MNV + list(mnv) + ["payloads written by update functors are not atomic with the operation (documented): the concurrent specification Spec.mapConc keeps the set of payloads that may still be observed per key; keys, presence and return flags are strict"],
             partial=partial or ["linearizability as a theorem about an algorithm model: not proved; decided on explored schedules only"])
    lean_step(res, ["CdsVerif.Props." + prop] + list(modules), thorough)
    tie_H(res, client, hist_runs(thorough, threads, ops, enum_cases, mixed, extra=["--spec", spec]), **kw)


def iterable_find_prev_probe(res):
    """Kept witness of the IterableList find_prev race (known finding, C13 and C19): two threads, six operations, one
    schedule; the probe runs the REAL list and prints its final iteration and contains() answers."""
    try:
        exe = vlib.build_client("fpprobe", src=os.path.join(vlib.HARNESS, "probes", "iterable_find_prev_race.cpp"))
        rc, out, err = vlib.sh([exe, "0x21 1x98 0x5 1x5000 0x5000"], timeout=120)
    except Exception as e:      # the probe is a corpus case: if it cannot be built any more, say so without failing the property
        res.cov["find_prev_probe"] = "not run: %s" % str(e)[:200]
        return
    m = re.search(r"final iteration:(.*)", out)
    keys = [int(x.split(":")[0]) for x in m.group(1).split()] if m else []
    lost = re.search(r"contains\(1\)=0", out) is not None and 1 in keys
    unsorted_ = any(a >= b for a, b in zip(keys, keys[1:]))
    res.cov["find_prev_probe"] = {"final_iteration": keys, "insert_true_but_contains_false": lost}
    res.add("evaluations")
    if lost or unsorted_:
        res.violation("list:iterable:find-prev-race", {"kind": "probe", "cmd": exe + ' "0x21 1x98 0x5 1x5000 0x5000"', "final_iteration": keys,
                                                       "note": "insert(1) returned true; the sequential iteration afterwards yields %s and contains(1) is false" % keys,
                                                       "trace": "harness/probes/iterable_find_prev_race.trace.txt"})


def c13(res, thorough):
    setmap_check(res, thorough, "C13", "list", modules=["CdsVerif.Props.C13Michael", "CdsVerif.Props.C13Lazy"],
                 mnv=["MichaelList: Lean machine (Algo/Michael: search with helping, link_node with its plain stores, unlink_node with the single ignored unlink attempt) proved linearizable to Spec.map for all schedules, thread counts and keys, "
                      "hindsight cases (failed find / erase / insert) included, with chain-sorted / marked-frozen / erase-once theorems; garbage-collected heap (no node reuse: what C01/C02 provide), HP stores not modelled, weak CAS never fails spuriously; "
                      "tied by trace conformance (variant imichael_hp_named: every load / store / CAS of the head and of every node's next word, values and mark bits included, and every result)",
                      "LazyList: Lean machine (Algo/Lazy: unlocked search, lock pred and cur, validate, link / mark / unlink stores, find with and without functor, update in both forms; the marking store writes head|1 so that memory forms a cycle "
                      "while an eraser is between its two stores - modelled as coded, with a ghost logical successor) proved linearizable to Spec.map for all schedules incl. the hindsight cases of the unlocked find / contains; lock discipline, marked-frozen, erase-once; "
                      "tied by trace conformance (variant ilazy_hp_named: next words with mark bits, node lock words, results)",
                      "IterableList (see C19 for its machine; its histories are judged here), the KV forms and the RCU / nogc specialisations: no separate model; decided by histories judged against Spec.map"],
                 partial=["linearizability of IterableList is false of the code (known finding: find_prev race); RCU and nogc specialisations as theorems: not proved; decided on explored schedules only"])
    iterable_find_prev_probe(res)
    tie_A(res, "list", "lazy", [{"args": ["--mode", "mixed", "--threads", "4", "--ops", "5", "--variant", "ilazy_hp_named"], "cases": 12000 if thorough else 1500},
                                {"args": ["--mode", "cas", "--threads", "3", "--ops", "6", "--variant", "ilazy_hp_named"], "cases": 8000 if thorough else 800},
                                {"args": ["--mode", "enum2" if thorough else "enum1", "--threads", "2", "--ops", "3", "--variant", "ilazy_hp_named"], "cases": 10 if thorough else 4}])
    # tie A: the Lean machine whose linearizability is proved (Algo/Michael) must accept the real traces step by step
    tie_A(res, "list", "michael", [{"args": ["--mode", "mixed", "--threads", "4", "--ops", "5", "--variant", "imichael_hp_named"], "cases": 12000 if thorough else 1500},
                                   {"args": ["--mode", "mixed", "--threads", "3", "--ops", "6", "--variant", "imichael_hp_named"], "cases": 8000 if thorough else 800},
                                   {"args": ["--mode", "enum2" if thorough else "enum1", "--threads", "2", "--ops", "3", "--variant", "imichael_hp_named"], "cases": 10 if thorough else 4}])
    # IterableList keeps emptied nodes and re-uses them: position re-validation (find_prev) only matters after an
    # insert/erase pair by other threads while an inserter is delayed - longer programs, 4 threads, iterable variants only
    for v in ("iterable_hp", "iterable_dhp", "iiterable_hp", "iterable_kv_hp"):
        tie_H(res, "list", [{"args": ["--mode", "mixed", "--threads", "4", "--ops", "6", "--variant", v, "--spec", "mapc"], "cases": 60000 if thorough else 7000}])


def c14(res, thorough):
    c14_body(res, thorough)
    c14_feldman_tie(res, thorough)
    tie_A(res, "hashset", "splitlist",
          [{"args": ["--mode", "mixed", "--threads", "4", "--ops", "5", "--variant", "isset_michael_hp_named"], "cases": 12000 if thorough else 1500},
           {"args": ["--mode", "mixed", "--threads", "3", "--ops", "6", "--variant", "isset_michael_hp_named"], "cases": 8000 if thorough else 800},
           {"args": ["--mode", "enum2" if thorough else "enum1", "--threads", "2", "--ops", "3", "--variant", "isset_michael_hp_named"], "cases": 10 if thorough else 4}])


def c14_feldman_tie(res, thorough):
    tie_A(res, "hashset", "feldman",
          [{"args": ["--mode", "mixed", "--threads", "4", "--ops", "5", "--variant", "ifset_hp_named"], "cases": 12000 if thorough else 1500},
           {"args": ["--mode", "mixed", "--threads", "3", "--ops", "6", "--variant", "ifset_hp_named"], "cases": 8000 if thorough else 800},
           {"args": ["--mode", "cas", "--threads", "2", "--ops", "6", "--variant", "ifset_hp_named"], "cases": 4000 if thorough else 500},
           {"args": ["--mode", "enum2" if thorough else "enum1", "--threads", "2", "--ops", "3", "--variant", "ifset_hp_named"], "cases": 10 if thorough else 4}],
          label="hashset:feldman")


def c14_body(res, thorough):
    setmap_check(res, thorough, "C14", "hashset", mixed=(4000, 50000), enum_cases=(55, 110), modules=["CdsVerif.Props.C14SplitList", "CdsVerif.Props.C14Feldman"],
                 mnv=["SplitListSet over MichaelList with the dynamic bucket table: Lean machine (Algo/SplitList: get_bucket, recursive init_bucket with the nested insert of the dummy and its publication, the MichaelList steps started from the bucket's dummy, "
                      "inc_item_count with the two growth CASes) proved linearizable to Spec.map for all schedules, thread counts, keys and hash functions; sorted by split order, published bucket pointers point to the linked unmarked dummy of their bucket, "
                      "a lazily initialised child bucket sees every key of its range, growth changes no result; the split-order facts it needs are the C27 theorems (C14_cfg64_hyp instantiates them for the real 64-bit key functions); "
                      "tied by trace conformance (hidden variant isset_michael_hp_named, three hash modes incl. a hash of SIZE_MAX)","locality (Base/Locality, Herlihy-Wing Theorem 1 proved for the framework's definition) and C14_table_of_linearizable_buckets: a table whose operations are routed by ANY bucket function to independent buckets is a linearizable map "
                      "as soon as every bucket's sub-history is; with the MichaelList machine of C13 this covers MichaelHashSet over MichaelList at the level of histories (the product machine itself is not written); "
                      "FeldmanHashSet (HP): Lean machine (Algo/Feldman: traverse with spin on a converting slot, the insert / erase / update CASes, the four expand_slot steps) proved linearizable to Spec.map for all schedules under PathHyp (all hash paths of one length and injective: what C28 proves of the real splitter); PathHyp is PROVED for every configuration the harness replays (cfgH hb ab shift with hb + ab*((64-hb)/ab) = 64: C14_feldman_harness_hyp_all, C14_feldman_linearizable_harness; the model's path is the code's `key << shift` on keys with key*2^shift < 2^64 and an injective extension elsewhere, where that hash functor would violate the container's own perfect-hash precondition); "
                      "an expansion changes no lookup, the moved item is in the new array node before it is published (the two seeded Feldman changes break exactly this; with copyFirst = false the machine reaches a proved non-linearizable run); tied by trace conformance (hidden variant ifset_hp_named)",
                      "SplitList over LazyList / IterableList, the static bucket table, the aux-node free list beyond the first segment, Feldman maps / RCU forms: no separate model",
                      "the hashset client calls the *_with( key, less ) overloads in a quarter of the cases and gives split lists a colliding hash (key >> 1) in half of them"])


def c15(res, thorough):
    setmap_check(res, thorough, "C15", "tree", mixed=(4000, 50000), spec="mapr", history_oracle=steps.minmax_oracle, modules=["CdsVerif.Props.C15SkipList", "CdsVerif.Props.C15SkipListUpper"],
                 mnv=["SkipListSet (HP): Lean machine of the REPAIRED code (Algo/SkipList: towers, find_position with helping, insert level by level with renew_insert_position, try_remove_at, fast and slow find paths; Cfg.markTest = the mark test added by b95a3c3), "
                      "tied by trace conformance (hidden variant iskipset_hp_named) with a structural predicate evaluated on every replayed state (every level sorted and a sub-list of the level below, a level-0 mark implies all upper marks, quiescence implies no marked node); "
                      "theorems: marked words frozen, level 0 marked only by the successful erase, the fast path answers 'found' only after reading an unmarked level-0 link, and WITHOUT the mark test the machine has a complete run whose history is proved non-linearizable "
                      "(C15_skiplist_not_linearizable_without_mark_test: the defect fixed by b95a3c3). For the repaired machine: inductive invariant over all schedules (level 0 a strictly sorted chain from the head, tower words null or published items tall enough, level-0 mark implies all upper marks, head never marked: C15_skiplist_invariant / _structure / _level0), erase marks once (C15_skiplist_mark_once) and linearizability to Spec.map for every run (C15_skiplist_linearizable, ghost log with a helped linearization point for the eraser that loses the race on the level-0 mark); the upper levels: every tower word points forward in key order and every level chain is non-decreasing (C15_skiplist_links_forward, C15_skiplist_levels_nondecreasing) are proved; the sub-list clause itself (UpperOk) is NOT an invariant theorem: it is evaluated on every replayed state (invB), and C15_invB_skipWf proves that a state passing invB is well-formed in exactly the sense of C18 (skipWf of the full dump)",
                      "EllenBinTree, BronsonAVLTreeMap, SkipListMap and the RCU forms: no algorithm model; decided by histories"],
                 partial=["skip list: upper levels sorted / sub-list of the level below as an invariant for all schedules: not proved (replayed states and C18 snapshots only)", "EllenBinTree / Bronson machines: none; decided by histories"])
    tie_A(res, "tree", "skiplist",
          [{"args": ["--mode", "mixed", "--threads", "4", "--ops", "5", "--variant", "iskipset_hp_named"], "cases": 12000 if thorough else 1500},
           {"args": ["--mode", "random", "--threads", "4", "--ops", "4", "--keys", "2", "--variant", "iskipset_hp_named"], "cases": 8000 if thorough else 1000},
           {"args": ["--mode", "enum2" if thorough else "enum1", "--threads", "2", "--ops", "3", "--variant", "iskipset_hp_named"], "cases": 4}])
    # two keys, four threads, CAS-biased schedules, STRICT map specification: the run that re-finds the skip-list fast-path defect of commit b95a3c3
    # (erase answers 'not found' on a node another eraser has marked but not unlinked, find must then not find it): about 1 case in 1500 before the fix
    tie_H(res, "tree", [{"args": ["--mode", "cas", "--threads", "4", "--ops", "4", "--variant", "iskipset_hp_named", "--keys", "2", "--spec", "map"], "cases": 100000 if thorough else 12000}], label="tree-skip2keys")
    # extract_min / extract_max racing with removal of the extreme element: skip lists, random schedules
    for v in ("skipset_hp", "skipset_gpi", "skipmap_gpb", "skipmap_dhp"):
        tie_H(res, "tree", [{"args": ["--mode", "random", "--threads", "3", "--ops", "4", "--variant", v, "--spec", "mapr"], "cases": 20000 if thorough else 2500}],
              history_oracle=steps.minmax_oracle)


def c16(res, thorough):
    # Lock-based containers: C16 is about linearizability, not progress.  Two kinds of hangs were seen on the unchanged tree and are
    # recorded in the evidence (hang_status) instead of being reported as violations of C16:
    #  * budget: cuckoo's try-lock / back-off loop stays phase-locked under one unfair deterministic schedule (striped client,
    #    cmap_ulist_striping, seed 1 case 2044, pct);
    #  * deadlock: CuckooSet::relocate calls try_second_acquire(), which takes the table-0 cell with try_lock but then BLOCKS on the
    #    table-1 cell while the thread still holds its own cells: two relocating threads that need each other's table-1 cell wait for
    #    ever (cset_ulist_refinable_hash, seed 1 case 26450 of the thorough run, cas mode: T0 holds cell i and waits for cell i+1 of
    #    the same lock array, T2 the other way round).  A genuine liveness defect of libcds, outside the wording of C16 (DESIGN 11.3).
    setmap_check(res, thorough, "C16", "striped", hang_is_violation=False, modules=["CdsVerif.Props.C16Striped"],
                 mnv=["StripedSet: Lean machine (Algo/Striped, one machine for the striping and the refinable mutex policies: cell locks, lock_all / the refinable owner word and sweep, lock-array replacement, "
                      "load-factor resizing decision, rehash; the bucket operation under its lock and the rehash under all locks are single steps) proved for all schedules, any hash function, capacities 2^k: "
                      "lock discipline, a bucket is touched only under the lock that CURRENTLY guards it (refinable: needs the owner / array re-check), resize exclusive, no loss / no duplication across rehash, "
                      "linearizability to Spec.map (C16_striped_linearizable, C16_refinable_linearizable); with the re-check removed the machine reaches a non-linearizable run (proved); "
                      "tied by trace conformance (hidden variants tie_striping / tie_refinable: lock words per array generation, owner, mask, counter, one pseudo-event per bucket operation and per rehash with the table layout)",
                      "CuckooSet / CuckooMap and the map forms of StripedSet: no machine; decided by histories"],
                 partial=["CuckooSet/Map linearizability across resizes as a theorem: not proved; decided on explored schedules"])
    for v in ("tie_striping", "tie_refinable"):
        tie_A(res, "striped", "striped", [
            {"args": ["--mode", "mixed", "--threads", "4", "--ops", "5", "--variant", v], "cases": 12000 if thorough else 1500},
            {"args": ["--mode", "mixed", "--threads", "2", "--ops", "6", "--variant", v], "cases": 6000 if thorough else 600},
            {"args": ["--mode", "enum1", "--threads", "3", "--ops", "2", "--variant", v], "cases": 6 if thorough else 3}],
            label="striped:" + v)


def oracle_check(res, thorough, prop, client, mnv, only=None, ignore=None, threads=3, ops=4, mixed=(3000, 40000), enum_cases=(10, 20), extra=(), variants=None):
    base_cov(res, ["memory orders", "back-off timing"] + mnv,
             partial=["the property as a theorem about a protocol model over all schedules: in progress; decided here on explored schedules by oracles evaluated on the real execution"])
    lean_step(res, "CdsVerif.Props." + prop, thorough)
    runs = hist_runs(thorough, threads, ops, enum_cases, mixed, extra=extra)
    if variants:
        runs = [dict(r, args=r["args"] + ["--variant", v], cases=max(1, r["cases"] // len(variants))) for v in variants for r in runs]
    tie_H(res, client, runs, judged=False, only_oracle=only, ignore_oracle=ignore)


RCU_SAFETY = r"^(disposed-under-preexisting-reader|disposed-while-referenced|read-returned-disposed|deref-of-disposed|synchronize-returned)"
RCU_ONCE = r"^(disposed-twice|disposed-but-never-retired|retired-object-disposed|unretired-object-disposed)"
RCU_MNV = ["the Lean machine Algo/RCU (both general-purpose flavours, any thread count, nesting, buffer capacity and overflow, destruct) is proved for all schedules and tied to gp.h/gpi.h/gpb.h by TRACE CONFORMANCE: "
           "every atomic operation on the global control word, the per-thread control words (in the order flip_and_wait visits the thread list), the writers' lock, the epoch counter, "
           "and one pseudo-event per buffer call (push / pop / size; the buffer itself is the Vyukov queue of C07 wrapped by a tracing buffer) and per disposer call, replayed step by step with values",
           "replay exclusions (named, not hidden): programs with batch_retire (gpb loads the epoch once for the whole batch; not expressible in the machine); the library's DEFAULT buffer type, whose size() is always 0 "
           "(VyukovMPMCCycleQueue's default item counter is the empty one), so that the threshold test of push_buffer never fires - the replay uses an item-counting queue, the oracles below also run the default; "
           "the spin lock's loads between failed exchanges and the second, empty clear_buffer of destruction are dropped by the pre-pass",
           "general_threaded (background disposer thread) and signal_buffered (POSIX signals) need OS primitives that cannot run under the baton: not run; their grace-period core is the same code (gp.h / sh.h share the two-phase flip) ",
           "std::mutex replaced by cds::sync::spin through the template parameter", "the buffer (VyukovMPMCCycleQueue) is judged by C07"]


def rcu_tie(res, thorough):
    from rcu_pre import rcu_pre
    tie_A(res, "rcu", "rcu", [
        {"args": ["--tie", "1", "--mode", "mixed", "--threads", "4", "--ops", "5"], "cases": 20000 if thorough else 3000},
        {"args": ["--tie", "1", "--mode", "mixed", "--threads", "3", "--ops", "5", "--variant", "gpb", "--cap", "1"], "cases": 4000 if thorough else 600},
        {"args": ["--tie", "1", "--mode", "enum1", "--threads", "3", "--ops", "2"], "cases": 10 if thorough else 4},
    ], pre=rcu_pre)


def c04(res, thorough):
    oracle_check(res, thorough, "C04", "rcu", RCU_MNV, only=RCU_SAFETY, threads=4, ops=5)
    rcu_tie(res, thorough)
    # the epoch-tag logic of the buffered flavour only matters when a retire lands inside another thread's grace period while a
    # late reader is inside: three roles on different threads - longer programs, random schedules, buffered flavour only
    tie_H(res, "rcu", [{"args": ["--mode", "random", "--threads", "4", "--ops", "6", "--variant", "gpb"], "cases": 250000 if thorough else 30000}], judged=False, only_oracle=RCU_SAFETY)
    tie_H(res, "rcu", [{"args": ["--mode", "mixed", "--threads", "3", "--ops", "5", "--variant", "gpb", "--cap", "1"], "cases": 8000 if thorough else 800}], judged=False, only_oracle=RCU_SAFETY)


def c05(res, thorough):
    oracle_check(res, thorough, "C05", "rcu", RCU_MNV, only=RCU_ONCE, threads=4, ops=5)
    rcu_tie(res, thorough)
    tie_H(res, "rcu", [{"args": ["--mode", "mixed", "--threads", "3", "--ops", "5", "--variant", "gpb", "--cap", "1"], "cases": 8000 if thorough else 800}], judged=False, only_oracle=RCU_ONCE)


def c08(res, thorough):
    from segq_pre import segq_pre
    base_cov(res, ["memory orders", "back-off timing",
                   "Algo/Segmented: Lean machine of SegmentedQueue (segment list with its lock step by step, enqueue / dequeue scans in the order of a permutation that is an ARGUMENT of each operation, "
                   "create_tail, remove_head) proved for all schedules, thread counts, K and permutation inputs: structure, cells write-once / delete-once, conservation at every instant, "
                   "EMPTY only if everything stored before the invocation has been taken, dequeues work on the first segment only, quasi bound K-1 in the form the property states; "
                   "tied by trace conformance (hidden variant i_hp_named: list pointers, lock, every cell CAS, the permutation each operation used, results; start state = the machine's own run of the warm-up)",
                   "the literal 'empty at some instant during the call' is false of the algorithm (evaluated counterexample in Props/C08Segmented); the property's own wording is what is proved",
                   "garbage-collected heap in the machine (no segment reuse: what C01/C02 provide); hazard-pointer traffic, the item counter and fences are filtered out; the permutation generator is replaced by a deterministic one through the traits",
                   "the quasi bound of the client oracle is judged with the sound real-time reading (an item counts as still present only if its dequeue had not been invoked when x's dequeue responded)"],
             partial=["liveness (a listed item is eventually dequeued): not stated"])
    lean_step(res, ["CdsVerif.Props.C08", "CdsVerif.Props.C08Segmented"], thorough)
    for qf in ("2", "4"):
        tie_A(res, "segmented", "segq", [
            {"args": ["--mode", "mixed", "--threads", "4", "--ops", "4", "--variant", "i_hp_named", "--qf", qf], "cases": 4000 if thorough else 600},
            {"args": ["--mode", "enum1", "--threads", "3", "--ops", "3", "--variant", "i_hp_named", "--qf", qf], "cases": 12 if thorough else 4}],
            pre=segq_pre)
    tie_H(res, "segmented", hist_runs(thorough, 4, 6, (10, 20), (3000, 40000)), judged=False)


def c12(res, thorough):
    from voidring_pre import voidring_pre
    for v in ("typed_mod", "typed_exp2"):
        tie_A(res, "ringbuf", "ring", [{"args": ["--mode", "mixed", "--threads", "2", "--ops", "4", "--variant", v], "cases": 12000 if thorough else 1500},
                                       {"args": ["--mode", "enum2" if thorough else "enum1", "--threads", "2", "--ops", "3", "--variant", v], "cases": 12 if thorough else 6}])
    oracle_check(res, thorough, "C12", "ringbuf", ["typed ring: Lean machine (Algo/Ring) with theorems over all producer/consumer interleavings, tied by trace conformance; counters are Nat (no 2^64 wrap)",
                                                   "void ring: CONCURRENT Lean machine (Algo/VoidRing: both free-space checks of back(), tail marker and wrap, header at offset 0, push_back, both reload paths of front(), pop_front, size / empty; "
                                                   "buffer as a map from byte offset to header / marker / payload cell) with theorems over all producer/consumer interleavings, any capacity that is a multiple of 8 and any record sizes: "
                                                   "the live region parses as exactly the records pushed and not popped, no step writes into it, exact FIFO results, back() fails iff the record does not fit at the instant of the (re)load of front_, front() fails only on an empty ring; "
                                                   "tied by trace conformance (void_mod, void_exp2, void_unaligned; the plain memory accesses are tied through the stored back/front values and the (size, id) the client reads back); "
                                                   "the byte-level record layout has in addition the sequential model Algo/Ring/Void and the byte-exact consumer oracle",
                                                   "capacities that are not a multiple of sizeof(size_t) are rounded up by the constructor after the fix: commit"], threads=2, ops=4)
    lean_step(res, ["CdsVerif.Props.C12", "CdsVerif.Props.C12VoidRing", "CdsVerif.Props.C12RingLin"], thorough)
    for v in ("void_mod", "void_exp2", "void_unaligned"):
        tie_A(res, "ringbuf", "voidring",
              [{"args": ["--mode", "mixed", "--threads", "2", "--ops", "4", "--variant", v], "cases": 12000 if thorough else 1500},
               {"args": ["--mode", "mixed", "--threads", "2", "--ops", "4", "--variant", v, "--sizeops", "25"], "cases": 4000 if thorough else 500},
               {"args": ["--mode", "enum2" if thorough else "enum1", "--threads", "2", "--ops", "3", "--variant", v], "cases": 12 if thorough else 6}],
              pre=voidring_pre)


def c21(res, thorough):
    base_cov(res, ["memory orders", "back-off timing",
                   "Algo/FreeList (reference-counted free list, 32-bit word arithmetic exact, count below 2^31) and Algo/TaggedFreeList (tag + pointer double-width CAS, unbounded tag): Lean machines with node reuse, "
                   "stale pointers and counted references; no-double-hand-out, conservation, quiescent completeness and the tag / reference lemmas are theorems over all schedules, any number of threads and nodes; "
                   "both machines are tied by trace conformance (every atomic operation on head, m_freeListRefs and m_freeListNext, values included, and every result)",
                   "CachedFreeList: no model; decided by the client oracles on explored schedules. Its thread-id hash is replaced by a per-case slot choice (replayability)",
                   "history level (Props/C21FreeListsLin): TaggedFreeList is Herlihy-Wing linearizable to the bag for every run (C21_tagged_bag_linearizable, empty means empty at an instant inside the call); the reference-counted FreeList is NOT "
                   "(C21_freelist_not_bag_linearizable: machine-checked complete run in which a get answers 'empty' while the only node is in the SHOULD_BE_ON_FREELIST hand-over of a put that has already returned) - it is linearizable to the weak bag "
                   "in which 'empty' is always allowed (C21_freelist_bag_linearizable_partial: no invention, no duplication, no loss); the clauses C21 states (no double hand-out, quiescent completeness) are theorems for both; "
                   "get() returning nullptr while a deferred put is in flight is outside the property's clauses (FreeList is a relaxed bag)"],
             partial=["CachedFreeList as a theorem: not proved"])
    lean_step(res, ["CdsVerif.Props.C21", "CdsVerif.Props.C21FreeLists", "CdsVerif.Props.C21FreeListsLin"], thorough)
    for v, m in (("freelist", "freelist"), ("tagged", "tagged")):
        tie_A(res, "freelist", m, [{"args": ["--mode", "mixed", "--threads", "4", "--ops", "5", "--variant", v], "cases": 10000 if thorough else 1200},
                                   {"args": ["--mode", "enum2" if thorough else "enum1", "--threads", "2", "--ops", "3", "--variant", v], "cases": 8 if thorough else 3}], pre=steps.freelist_pre)
    runs = hist_runs(thorough, 4, 6, (10, 20), (3000, 40000))
    tie_H(res, "freelist", runs, judged=False)


def c24(res, thorough):
    base_cov(res, ["memory orders", "back-off timing",
                   "Algo/Pool: Lean machine of vyukov_queue_pool / lazy_vyukov_queue_pool / bounded_vyukov_queue_pool (pool_allocator only forwards) over an ABSTRACT bounded FIFO whose push/pop are atomic: "
                   "that is what C07 proves of the real Vyukov queue (linearizability, all schedules) and ties to the code by trace conformance; the composition (pool over a linearizable queue behaves like pool over an atomic queue) is the standard "
                   "linearizability argument and is not itself a Lean theorem",
                   "theorems over all schedules, thread counts and capacities: no object has two holders, what allocate returns is held by nobody / not freed / not inside a deallocate, a completed deallocate leaves the object in the free queue (or deletes a heap object / lazy overflow), "
                   "block objects are never deleted, and every completing step of the machine is a legal step of Spec.pool (C24_machine_refines_spec)",
                   "tie: the histories of the real pools are judged against Spec.pool by the verified linearizability checker (an allocation returns the OLDEST free object and goes to the heap / fails only when the free queue is empty, started from the free queue as read from the real ring after the warm-up), "
                   "plus the client's ownership / marker / destructor oracles",
                   "bounded pool: programs keep outstanding allocations within capacity by construction, the *x variants accept bad_alloc"],
             partial=["composition pool-machine + Vyukov machine as one Lean theorem: not proved (argued by linearizability)"])
    lean_step(res, ["CdsVerif.Props.C24", "CdsVerif.Props.C24Pool"], thorough)
    tie_H(res, "pool", hist_runs(thorough, 4, 6, (10, 20), (3000, 40000)))


def c18(res, thorough):
    base_cov(res, ["memory orders", "back-off timing",
                   "the dump functions of the snap client read the containers' private fields (-fno-access-control) at a quiescent point; they are harness code, cross-checked by comparing the dumped content with the container's own traversal (ITER) and with the history",
                   "Base/Snapshot: well-formedness predicates and abstraction functions; Props/C18: well-formed => traversal exact / strictly increasing / duplicate-free, every skip-list level an ordered sub-list of the level below, "
                   "search-tree order for EllenBinTree and Bronson, strict AVL (stored height = structural height, balance) for Bronson, split order for SplitListSet",
                   "that every quiescent state reached by the real code is well-formed is decided on explored schedules (the dump of each final state is judged by the Lean functions), not proved about algorithm models",
                   "covered variants: MichaelList, LazyList, IterableList (HP), SkipListSet (HP, RCU gpi), EllenBinTreeSet (HP), BronsonAVLTreeMap (RCU gpi, relaxed insert), SplitListSet over MichaelList (HP, with and without colliding hashes), each with and without item counter; "
                   "DHP and the other RCU flavours share the code paths and are not dumped"],
             partial=["'every reachable quiescent state is well-formed' as a theorem: proved for the MichaelList, LazyList, SplitListSet machines (SplitListSet incl. the item counter = number of keys and the bucket-table dump at quiescence: "
                      "C18_splitlist_quiescent_size, C18_splitlist_quiescent_table_dump) and for level 0 of the SkipListSet machine (Props/C18Reach, every reachable state, not only quiescent ones; "
                      "Michael, Lazy, SplitList and SkipList (all levels) additionally tied by comparing the real final structure with the machine's final state); skip-list upper levels: links point forward and levels are non-decreasing (proved), the sub-list clause is evaluated on every replayed state "
                      "and C15_invB_skipWf proves that this evaluation implies skipWf of the full dump; NOT proved: the sub-list clause as an invariant, EllenBinTree, BronsonAVLTreeMap, IterableList (explored schedules only)"])
    res.cov["rule"] = ("cases = (client program, schedule) pairs; after each program the main thread dumps the structure; distinct = distinct (variant, atomic-operation sequence hash); "
                       "non-trivial = contains a failed CAS or a back-off; sequential runs (one thread) are included as a separate run")
    lean_step(res, ["CdsVerif.Props.C18", "CdsVerif.Props.C18Reach", "CdsVerif.Props.C15SkipListUpper"], thorough)
    n = 30000 if thorough else 6000
    steps.tie_S(res, "snap", [{"args": ["--mode", "mixed", "--threads", "3", "--ops", "5"], "cases": n},
                              {"args": ["--mode", "mixed", "--threads", "4", "--ops", "4"], "cases": n // 2},
                              {"args": ["--mode", "seq", "--threads", "1", "--ops", "14"], "cases": n},
                              {"args": ["--mode", "enum2" if thorough else "enum1", "--threads", "2", "--ops", "3"], "cases": 34 if thorough else 17}])
    # reachable => well-formed for the containers that have a proved machine (Props/C18Reach): the real structure dumped at the quiescent end of a
    # replayed case must be exactly the rendering (snapOf / memSnapOf) of the machine state the replay ended in
    tie_A(res, "list", "michael", [{"args": ["--mode", "mixed", "--threads", "4", "--ops", "5", "--variant", "imichael_hp_named"], "cases": 8000 if thorough else 1000}])
    tie_A(res, "list", "lazy", [{"args": ["--mode", "mixed", "--threads", "4", "--ops", "5", "--variant", "ilazy_hp_named"], "cases": 8000 if thorough else 1000}])
    tie_A(res, "hashset", "splitlist", [{"args": ["--mode", "mixed", "--threads", "4", "--ops", "5", "--variant", "isset_michael_hp_named"], "cases": 8000 if thorough else 1000}])
    # skip list: ALL levels of the real final structure against the machine's final state; the replay also evaluates invB on every state, and
    # C15_invB_skipWf proves that invB implies skipWf of this dump (the sub-list clause C18 names)
    tie_A(res, "tree", "skiplist", [{"args": ["--mode", "mixed", "--threads", "4", "--ops", "5", "--variant", "iskipset_hp_named"], "cases": 8000 if thorough else 1000}])
    # the leftovers that matter are rare (a marked node left linked, a stale height): dense runs on the variants that can have them
    for v in ("michael_hp", "michael_hp_cnt", "split_michael_hp", "bronson_gpi", "bronson_gpi_cnt", "bronson_gpi_relaxed", "skip_hp", "lazy_hp"):
        steps.tie_S(res, "snap", [{"args": ["--mode", "mixed", "--threads", "3", "--ops", "5", "--variant", v], "cases": 16000 if thorough else 5000}], label="snap-dense")


def c19(res, thorough):
    import iterable_pre
    base_cov(res, ["memory orders", "back-off timing",
                   "Algo/Iterable: Lean machine of IterableList (search, link_data with its marking protocol and find_prev re-validation, new-node path, unlink_data, update replacing the data pointer, "
                   "the iterator with its guard protocol, erase_at(iterator); abstract reclamation: retire / dispose enabled only when no hazard slot holds the element) proved for all schedules: "
                   "the node chain is append-only and elements never move between nodes, a validated iterator guard never holds a disposed element, a finished iteration yields every element present throughout exactly once, "
                   "erase_at removes exactly the iterator's element or fails only because the pointer part changed; tied by trace conformance (variant ilist_hp)",
                   "the ordering clauses are FALSE of the real algorithm (C19_sorted_keys_not_invariant, C19_iter_order_can_fail: the non-atomic find_prev walk, known finding); proved instead: every step except the re-use CAS preserves sortedness, "
                   "and iteration is in key order whenever the final state is sorted",
                   "hash sets over IterableList and the Feldman iterators (forward / reverse): no machine; decided by the relational oracle of the client "
                   "(every element with a successful add completed before the iteration began and no removal of its key invoked before it ended counts as present throughout; disposed flag read on arrival and before leaving; erase_at judged against the logged removals)",
                   "one iterating thread and 2-3 updating threads; Feldman with head bits 4 / array bits 2 and prefix-sharing hashes; HP (DHP for the intrusive list); the RCU Feldman iterators received the same fix but are not driven"],
             partial=["Feldman iterators and the hash sets over IterableList as theorems: not proved; decided on explored schedules", "IterableList key order: false of the code (known finding)"])
    lean_step(res, ["CdsVerif.Props.C19", "CdsVerif.Props.C19Iterable"], thorough)
    iterable_find_prev_probe(res)
    tie_A(res, "iter", "iterable", [{"args": ["--mode", "mixed", "--threads", "3", "--ops", "4", "--variant", "ilist_hp"], "cases": 12000 if thorough else 1500},
                                    {"args": ["--mode", "mixed", "--threads", "4", "--ops", "4", "--variant", "ilist_hp"], "cases": 6000 if thorough else 700},
                                    {"args": ["--mode", "enum2" if thorough else "enum1", "--threads", "2", "--ops", "3", "--variant", "ilist_hp"], "cases": 6 if thorough else 3}],
          pre=iterable_pre.iterable_pre)
    n = 40000 if thorough else 4000
    tie_H(res, "iter", [{"args": ["--mode", "mixed", "--threads", "3", "--ops", "4"], "cases": n},
                        {"args": ["--mode", "mixed", "--threads", "4", "--ops", "4"], "cases": n // 2},
                        {"args": ["--mode", "enum2" if thorough else "enum1", "--threads", "2", "--ops", "3"], "cases": 16 if thorough else 8}], judged=False)


def c20(res, thorough):
    base_cov(res, ["allocators, functor bodies", "size()/empty()/clear() and disposer counts are not part of the generated programs of the set/map clients (item counters are checked by the queue client's *_ic variant only)",
                   "variants are those of the concurrent clients (about 190); the full trait matrix of test/unit is not enumerated"],
             partial=["functor argument/new-flag logs and disposer counts: only partly observable through the payload returned by find/erase functors",
                      "C20 as a theorem: proved for the 14 machines of Props/C20Seq, the ring buffer, TaggedFreeList and (under 'returns' and 'nothing lost') the sequential CuckooSet model (Props/C20Seq2) and the flat-combining containers (C20_<name>_sequential: every single-threaded complete run returns exactly the results of Spec.lifo / fifo / bfifo / map / deque / the deterministic max-pq; "
                      "generic lemma: a sequential history is linearizable iff it is the specification's own run); BasketQueue (proved against the pool only), MSPriorityQueue, SegmentedQueue, EllenBinTree, Bronson, CuckooSet (sequential model with insert / erase laws in Props/C17Cuckoo), "
                      "IterableList and the container:: wrappers: decided by judged sequential histories only"])
    res.cov["rule"] = ("single-threaded operation sequences (one scheduled thread, 10-14 operations, key space 2-8, colliding hashes) on every variant of every client, judged against the STRICT sequential "
                       "specification (Spec.map / fifo / bfifo / lifo / deque / maxpq) by the verified checker; distinct = distinct (variant, program); non-trivial = every case (each has at least one failing and one succeeding operation is not required)")
    lean_step(res, ["CdsVerif.Props.C20", "CdsVerif.Props.C20Seq", "CdsVerif.Props.C20Seq2"], thorough)
    # Props/C20Seq: a single-threaded complete run of each proved machine returns exactly what the sequential specification returns.
    # Tie of those corollaries inside this check: single-threaded traces of the real code replayed against the same machines.
    from elim_pre import elim_pre
    ns = 3000 if thorough else 400
    for client, model, variant, pre in (("stack", "treiber", "treiber_hp", None), ("stack", "elim", "treiber_hp_elim_named", elim_pre),
                                        ("queue", "msqueue", "imsqueue_hp", None), ("queue", "moir", "imoir_hp", None), ("queue", "rwqueue", "rwqueue_named", None),
                                        ("queue", "optimistic", "ioptimistic_named", None), ("vyukov", "vyukov", "dyn", None),
                                        ("list", "michael", "imichael_hp_named", None), ("list", "lazy", "ilazy_hp_named", None),
                                        ("hashset", "splitlist", "isset_michael_hp_named", None), ("hashset", "feldman", "ifset_hp_named", None),
                                        ("tree", "skiplist", "iskipset_hp_named", None), ("striped", "striped", "tie_striping", None), ("striped", "striped", "tie_refinable", None)):
        tie_A(res, client, model, [{"args": ["--mode", "seq", "--threads", "1", "--ops", "12", "--variant", variant], "cases": ns}], label="seq:" + client + ":" + model, pre=pre)
    # sequential cases are cheap (about 2500 per second): many per variant, so that rare shapes are reached
    # (e.g. Bronson's update(key, f, false) on a routing node needs insert x3 / erase of the two-child node / update)
    n = 100000 if thorough else 24000
    for client in ("stack", "queue", "vyukov", "deque", "pqueue", "list", "hashset", "tree", "striped"):
        tie_H(res, client, [{"args": ["--mode", "seq", "--threads", "1", "--ops", "12"], "cases": n}], ignore_oracle=FC_ORACLE)
    res.cov["distinct_nontrivial"] = res.cov.get("distinct_traces", 0)


def c17(res, thorough):
    import purespec
    base_cov(res, ["sequential (single-threaded) growth only: concurrent resizes belong to C14/C16",
                   "Algo/Cuckoo: sequential Lean model of CuckooSet, arity 2 (insert / erase / contains / relocate with its round limit / resize INCLUDING the branch that drops a key when both target probe sets are full; "
                   "hash functions, probe-set size and threshold are parameters), tied by layout-exact differential runs (tools/cuckoo_tie.py: result, bucket count, size() and the order of the keys in every probe set after every operation; "
                   "the model loses the same key at the same operation and runs out of fuel exactly where the real insert keeps doubling). Theorems (Props/C17Cuckoo): resize is exact up to the ghost list of dropped keys (C17_cuckoo_resize_exact), "
                   "preserves contains / size / no-duplicates under the decidable room hypothesis, which is also necessary (C17_cuckoo_resize_preserves_partial, C17_cuckoo_resize_room_iff, C17_cuckoo_resize_lost_iff), "
                   "the full statement is FALSE (C17_cuckoo_resize_can_drop, C17_cuckoo_resize_full_statement_false, C17_cuckoo_witness_run = the kept witness: known finding), erase and insert laws on the invariant",
                   "Algo/Cuckoo/StripedSeq: sequential StripedSet rehash, C17_striped_rehash_preserves for EVERY hash function (not tied differentially; the concurrent machine of C16 proves no loss / no duplication across rehash and is tied by replay)",
                   "SplitListSet / FeldmanHashSet growth: addressing theorems of C27 / C28 + differential runs against std::set",
                   "hash families of bounded range with more keys than the addressable buckets make CuckooSet resize forever (liveness; such configurations are reported as hangs, not as C17 violations)"],
             partial=["cuckoo resize: preservation only under the room hypothesis (false without it: known finding); cuckoo insert: under 'the call returns' and 'nothing lost'", "StripedSeq model not tied to the code; SplitList / Feldman growth as theorems about a growth model: not proved (addressing theorems + differential runs)"])
    res.cov["rule"] = ("single-threaded insert/erase sequences (40-180 operations) on CuckooSet (list and vector probe sets), StripedSet and SplitListSet with degenerate hash families "
                       "(constant, k mod 2, k mod 3, (k/3) mod 3, k*16, k>>2, identity), probe-set sizes 2-4, thresholds, initial capacities 1-8, load factors 1-3; after EVERY operation contains() of every key "
                       "and size() are compared with std::set; distinct = distinct case lines; non-trivial = all (each grows the table several times)")
    lean_step(res, ["CdsVerif.Props.C17", "CdsVerif.Props.C17Cuckoo", "CdsVerif.Props.C27", "CdsVerif.Props.C28"], thorough)
    import cuckoo_tie
    exe = steps.build_pure("resize", ["resize.cpp"], with_libcds=True)
    n = 6000 if thorough else 700
    first = 0
    rounds = 0
    # kept witness of the known CuckooSet::resize finding (explicit configuration and operations, independent of the generator): runs first, on every run
    corpus = [tuple("explicit cuckoo_list 2 3 4 2 0 10 i3 e2 i1 i6 e0 e6 i7 e3 i8 i3 i3 e0 e7 e2 i9 e1 i2 i4 i5 i5 i1 i8 i1 e4 i8 i8 i3 i3 i1 i5 i4 i1 e8 i0 i8 e0 i1 e9 i1 i7 i6 i7 i9 i4 e9 i2 i8 i9 e1 i9 i0 e8 i5 e1 i8 i1".split())]
    while first < n and rounds < 40:
        rounds += 1
        if corpus:
            c = corpus.pop()
            rc, out, err = vlib.sh([exe] + list(c), timeout=300)
            rc = 1      # the random sweep follows
        else:
            rc, out, err = vlib.sh([exe, str(res.seed), str(n), str(first)], timeout=900)
        lines = [l for l in out.split("\n") if " ->" in l]
        for l in lines:
            inp, _, impl = l.partition(" ->")
            res.add("evaluations"); res.add("programs"); res.add("disagreements_checked")
            bad = purespec.compare_resize(inp, impl.split(), [])
            if bad:
                cls, _, txt = bad[1:].partition(": ")
                if cls == "lost-withroom" and inp.split()[0].startswith("cuckoo_") and cuckoo_tie.model_reproduces(exe, inp):
                    # the key was dropped by an earlier resize() inside the same insert and a later resize made room again, so the harness'
                    # classifier sees room; the Lean model of the UNCHANGED code (whose only losing branch is the full-sets branch of resize,
                    # C17_cuckoo_resize_lost_iff) reproduces the whole run layout for layout, losing the same key at the same operation:
                    # the recorded finding, not a new one
                    cls = "lost-fullsets"
                    res.add("lost_withroom_lines_reproduced_by_the_model")
                res.violation("resize:%s:%s" % (inp.split()[0], cls), {"kind": "pure-input", "input": inp[:3000], "observed": impl.strip()[-300:], "why": txt,
                                                                        "cmd": "%s %d %d <case index from the '# case' line before it>" % (exe, res.seed, n)})
        cases = [int(x.split()[2]) for x in out.split("\n") if x.startswith("# case ")]
        if rc == 0:
            break
        if rounds == 1:
            continue        # that was the corpus case
        first = (cases[-1] + 1) if cases else n
    res.cov["distinct_nontrivial"] = res.cov.get("evaluations", 0)
    if lines:
        res.sample({"input": lines[0][:300]})
    # tie D for the Lean model of CuckooSet (Algo/Cuckoo): layout-exact agreement after every operation
    cuckoo_tie.cuckoo_tie(res, thorough)


def c09(res, thorough):
    from elim_pre import elim_pre
    base_cov(res, ["memory orders", "back-off timing", "allocators of container:: wrappers", "FC wait strategies other than backoff",
                   "Treiber model: garbage-collected heap (no node reuse: what C01/C02 provide), hazard-pointer stores are not steps of the model, compare_exchange_weak never fails spuriously, item counter and statistics not modelled",
                   "Treiber stack WITH elimination back-off: Lean machine (Algo/Elim: push / pop / backoff, collision slots with their spin locks, per-thread operation descriptors; slot index and wait bound of every back-off round are inputs of the operation) "
                   "proved linearizable to Spec.lifo for all schedules (an eliminated pair is linearized at the collision store, push immediately followed by pop), no late collision, conservation; tied by trace conformance (treiber_*_elim_named)",
                   "FCStack without elimination: C09_fcstack_linearizable (generic flat-combining theorem of C10 instantiated with Spec.lifo); with elimination: fixed-batch theorems + differential tie + histories"],
             partial=["FCStack elimination under concurrency: fixed-batch theorems only",
                      "container::TreiberStack (allocation wrapper around the intrusive stack): histories only"])
    lean_step(res, ["CdsVerif.Props.C09", "CdsVerif.Props.C09Treiber", "CdsVerif.Props.C09Elim", "CdsVerif.Props.C10FCLin"], thorough)
    fcbatch.fcbatch_check(res, thorough, kinds=["stack"])
    for v in ("treiber_hp_elim_named", "treiber_dhp_elim_named"):
        tie_A(res, "stack", "elim", [
            {"args": ["--mode", "mixed", "--threads", "4", "--ops", "4", "--variant", v], "cases": 10000 if thorough else 1500},
            {"args": ["--mode", "cas", "--threads", "4", "--ops", "5", "--variant", v], "cases": 10000 if thorough else 1500},
            {"args": ["--mode", "cas", "--threads", "3", "--ops", "4", "--variant", v, "--coll", "1"], "cases": 4000 if thorough else 800},
            {"args": ["--mode", "mixed", "--threads", "2", "--ops", "5", "--variant", v], "cases": 500},
            {"args": ["--mode", "enum2" if thorough else "enum1", "--threads", "2", "--ops", "3", "--variant", v], "cases": 10 if thorough else 6}],
            pre=elim_pre, label="stack:elim")
    n = 20000 if thorough else 1500
    # tie A: the Lean machine whose linearizability is proved (Algo/Treiber) must accept the real traces step by step
    for v in ("treiber_hp", "treiber_dhp"):
        tie_A(res, "stack", "treiber", [{"args": ["--mode", "mixed", "--threads", "4", "--ops", "4", "--variant", v], "cases": 10000 if thorough else 1200},
                                        {"args": ["--mode", "enum2" if thorough else "enum1", "--threads", "2", "--ops", "3", "--variant", v], "cases": 10 if thorough else 5}])
    tie_H(res, "stack", [
        {"args": ["--mode", "mixed", "--threads", "3", "--ops", "4"], "cases": n},
        {"args": ["--mode", "enum2" if thorough else "enum1", "--threads", "2", "--ops", "3"], "cases": 30 if thorough else 12},
    ], ignore_oracle=FC_ORACLE)
    # elimination needs two operations of opposite kind that both lost a CAS and picked the same collision slot: 4 threads, elimination variants only
    for v in ("treiber_hp_elim", "treiber_dhp_elim", "ctreiber_hp_elim"):
        tie_H(res, "stack", [{"args": ["--mode", "mixed", "--threads", "4", "--ops", "4", "--variant", v], "cases": 30000 if thorough else 3000}], ignore_oracle=FC_ORACLE)


def c25(res, thorough):
    import purespec
    base_cov(res, ["inline-asm bsr/bsf variants of MSB/LSB are tied to the translated portable model by differential runs only",
                   "big-endian branches (not compiled on amd64)", "splitter classes are hand models tied by differential runs; number_splitter::cut, eos, rest_count are translated"])
    res.cov["rule"] = ("inputs: all values for <=16-bit domains, boundary patterns (0, all-ones, 2^k, 2^k+-1, ~2^k, alternating) and seeded random words of varying bit density "
                       "for 32/64-bit functions; cut-width sequences: random compositions of the source width, mixed cut/safe_cut sequences around and past the end, all compositions of 8- and 16-bit sources; "
                       "distinct = distinct input lines; every input is non-trivial (each exercises the full function)")
    steps.regenerate(res)
    lean_step(res, ["CdsVerif.Props.C25", "CdsVerif.Props.C25Splitters"], thorough)
    n = 20000 if thorough else 1500
    exe = steps.build_pure("bits", ["bits.cpp", "bits_generic.cpp"])
    steps.tie_D(res, exe, [str(res.seed), str(n)], ["eval"], purespec.compare_eval, "bits")
    exe2 = steps.build_pure("splitters", ["splitters.cpp"])
    steps.tie_D(res, exe2, ["splitters", str(res.seed), str(2000 if thorough else 150)] + (["full"] if thorough else []), ["seqeval"], purespec.compare_seq, "splitters")


def c22(res, thorough):
    from poolmon_pre import poolmon_pre
    base_cov(res, ["memory orders of the lock word", "back-off timing",
                   "Algo/Spin (spin lock, also the per-node lock of injecting_monitor), Algo/ReentrantSpin (owner + depth), Algo/LockArray (cell selection policies, lock_all / unlock_all in index order) and Algo/PoolMonitor "
                   "(refspin word, lazy lock attach / detach, lock pool) are Lean machines proved for all schedules (mutual exclusion, lock word, release only by the last unlock, lock uniqueness, returned only when unused, "
                   "refcount counts users, lock_all holds every cell and is not atomic) and ALL of them are tied by trace conformance; the pool monitor replay machine takes the pool's choice of lock object from the trace "
                   "(a nondeterministic-choice generalisation of the FIFO machine: PInv re-proved for it, and every state of the FIFO machine is reachable in it)",
                   "the lock pool itself (vyukov_queue_pool) is judged by C24 / C07"],
             partial=[])
    lean_step(res, ["CdsVerif.Props.C22", "CdsVerif.Props.C22Monitors", "CdsVerif.Props.C22PoolReplay", "CdsVerif.Props.C22LockArray"], thorough)
    n = 20000 if thorough else 2000
    for v, m in (("spin", "spin"), ("reentrant", "reentrant")):
        tie_A(res, "locks", m, [{"args": ["--mode", "mixed", "--threads", "4", "--ops", "5", "--variant", v], "cases": n // 2},
                                {"args": ["--mode", "enum2" if thorough else "enum1", "--threads", "2", "--ops", "3", "--variant", v], "cases": 20 if thorough else 8}])
    tie_A(res, "locks", "poolmon", [
        {"args": ["--mode", "mixed", "--threads", "4", "--ops", "5", "--variant", "pool_monitor_named", "--cap", "2"], "cases": n // 2},
        {"args": ["--mode", "cas", "--threads", "3", "--ops", "5", "--variant", "pool_monitor_named", "--cap", "2"], "cases": n // 4},
        {"args": ["--mode", "mixed", "--threads", "2", "--ops", "6", "--variant", "pool_monitor_named", "--cap", "4"], "cases": n // 4},
        {"args": ["--mode", "enum2" if thorough else "enum1", "--threads", "2", "--ops", "3", "--variant", "pool_monitor_named", "--cap", "2"], "cases": 20 if thorough else 8}],
        pre=poolmon_pre)
    tie_A(res, "locks", "spin", [
        {"args": ["--mode", "mixed", "--threads", "4", "--ops", "5", "--variant", "injecting"], "cases": n // 4},
        {"args": ["--mode", "cas", "--threads", "3", "--ops", "5", "--variant", "injecting"], "cases": n // 8},
        {"args": ["--mode", "enum1", "--threads", "2", "--ops", "3", "--variant", "injecting"], "cases": 8}], label="locks:injecting")
    tie_A(res, "locks", "lockarray", [
        {"args": ["--mode", "mixed", "--threads", "4", "--ops", "5", "--variant", "lock_array"], "cases": n // 4},
        {"args": ["--mode", "cas", "--threads", "3", "--ops", "5", "--variant", "lock_array"], "cases": n // 8},
        {"args": ["--mode", "enum1", "--threads", "2", "--ops", "3", "--variant", "lock_array"], "cases": 8}])
    tie_H(res, "locks", [{"args": ["--mode", "mixed", "--threads", "4", "--ops", "5"], "cases": n},
                         {"args": ["--mode", "enum2" if thorough else "enum1", "--threads", "2", "--ops", "3"], "cases": 25 if thorough else 10}])


def c26(res, thorough):
    import purespec
    base_cov(res, ["the counter class is a hand model (30 lines) tied to the real class by differential runs; its per-bit primitive complement64 is translated",
                   "counter wrap-around at 2^64 (theorems are stated for n < 2^63)"])
    res.cov["rule"] = ("operation sequences: every Dyck-like prefix (never more decrements than increments) of length 14 (thorough 18), seeded random walks of length 20..420 with varying drift, "
                       "one climb to 3000 and back; distinct = distinct sequences; every sequence is non-trivial (each checks the closed form after every inc and the undo after every dec)")
    steps.regenerate(res)
    lean_step(res, "CdsVerif.Props.C26", thorough)
    exe = steps.build_pure("splitters", ["splitters.cpp"])
    steps.tie_D(res, exe, ["counter", str(res.seed), str(3000 if thorough else 300), "18" if thorough else "14"], ["seqeval"], purespec.compare_seq, "counter")
    # the literal statement ("first n slots are a permutation of 1..n for every n") is false by design of the
    # Hunt heap: proved as C26_literal_false, replayed here on the implementation
    rows = steps.tie_D(res, exe, ["counter", "0", "0", "5"], ["seqeval"], lambda i, a, b: None, "counter-literal")
    for inp, impl, model in rows:
        if inp.split()[1:] == ["i"] * 5:
            slots = sorted(int(v.split("/")[0]) for v in impl)
            if slots != [1, 2, 3, 4, 5]:
                res.violation("counter:literal-permutation:n=5", {"kind": "pure-input", "input": inp, "impl": impl,
                                                                     "why": "first 5 slots are %s, not a permutation of 1..5" % slots})


def c27(res, thorough):
    import purespec
    base_cov(res, ["bucket_no reads the table-size logarithm from an atomic member: it is a parameter of the translated function",
                   "the rcu and nogc specialisations of SplitListSet carry textual copies of bucket_no/parent_bucket; the translation reads the HP/DHP one, the differential run calls it too"])
    res.cov["rule"] = ("inputs: seeded random 64-bit hashes of varying magnitude, single bits and low-bit masks, x table-size logarithms 0,1,30..33,63 and i mod 64; "
                       "distinct = distinct (function, input) lines; all are non-trivial")
    steps.regenerate(res)
    lean_step(res, "CdsVerif.Props.C27", thorough)
    exe = steps.build_pure("splitorder", ["splitorder.cpp"], with_libcds=True)
    steps.tie_D(res, exe, [str(res.seed), str(20000 if thorough else 1500)], ["eval"], purespec.compare_eval, "splitorder")


def c28(res, thorough):
    import purespec
    base_cov(res, ["split_bitstring / byte_splitter are hand models tied by differential runs; number_splitter members and metrics::make are translated",
                   "the traversal of the multi-level array itself (concurrent part) belongs to C14; here the addressing function only",
                   "head widths above 32 with a byte-array hash (split_bitstring's unsigned result) and head width 64 (size_t(1)<<64) are outside the defined domain: witnesses proved in Props/C28"])
    res.cov["rule"] = ("all configurations head_bits 0..hash_bits x array_bits 0..16 x hash sizes 1,2,4,8 (exhaustive); cut sequences as in C25; "
                       "families of distinct hashes sharing prefixes of every length inserted into a real FeldmanHashSet at random small widths; distinct = distinct input lines; all non-trivial")
    res.cov["exhaustive"] = True
    steps.regenerate(res)
    lean_step(res, ["CdsVerif.Props.C28", "CdsVerif.Props.C25Splitters"], thorough)
    exe = steps.build_pure("feldman", ["feldman.cpp"], with_libcds=True)
    steps.tie_D(res, exe, [str(res.seed), str(200 if thorough else 15)], ["eval"], purespec.compare_feldman, "feldman")
    exe2 = steps.build_pure("splitters", ["splitters.cpp"])
    steps.tie_D(res, exe2, ["splitters", str(res.seed), str(1000 if thorough else 80)], ["seqeval"], purespec.compare_seq, "splitters")


TABLE = {
    "C17": ("translation_validation", c17),
    "C20": ("translation_validation", c20),
    "C04": ("proof", c04),
    "C05": ("proof", c05),
    "C08": ("proof", c08),
    "C12": ("proof", c12),
    "C21": ("proof", c21),
    "C24": ("proof", c24),
    "C13": ("translation_validation", c13),
    "C14": ("proof", c14),
    "C15": ("translation_validation", c15),
    "C16": ("translation_validation", c16),
    "C01": ("proof", c01),
    "C02": ("proof", c02),
    "C03": ("proof", c03),
    "C23": ("proof", c23),
    "C06": ("proof", c06),
    "C07": ("proof", c07),
    "C10": ("proof", c10),
    "C11": ("translation_validation", c11),
    "C25": ("proof", c25),
    "C22": ("proof", c22),
    "C26": ("proof", c26),
    "C27": ("proof", c27),
    "C28": ("proof", c28),
    "C09": ("proof", c09),
    "C18": ("translation_validation", c18),
    "C19": ("translation_validation", c19),
}


def replay(prop, path):
    obj = json.load(open(path))
    kind = obj.get("kind")
    if kind in ("failing-history", "hang", "oracle"):
        exe = vlib.build_client(obj["client"])
        args = [a for a in obj["args"]]
        # drop the mode, use the recorded schedule
        cid = str(obj["case"]).split(".")[0]
        cmd = [exe, "--seed", str(obj["seed"])] + args + ["--first", cid, "--cases", "1", "--replay", obj["schedule"], "--trace", "1"]
        p = subprocess.run(cmd, capture_output=True, text=True, timeout=120)
        print(p.stdout[-6000:])
        if p.returncode != 0:
            print("replay: run ended with status", p.returncode)
            return 1
        v = vlib.driver(["lincheck"], p.stdout)
        print(v)
        bad = "NOTLIN" in v or re.search(r"^X ", p.stdout, flags=re.M)
        return 1 if bad else 0
    print(json.dumps(obj, indent=1)[:4000])
    print("replay: this replay names a proof/audit/correspondence obligation; re-run ./check %s" % prop)
    return 1

/-
  Locality of linearizability (Herlihy–Wing, Theorem 1), for the definition of `Base/Lin`.

  A composite object is a family of independent component objects (all with the same sequential
  specification, possibly different states); every operation is routed to exactly one component
  (`route op`).  A complete history of the composite object is linearizable as soon as, for every
  component, the sub-history of the operations routed to it is linearizable.

  This is what lets a hash table built from per-bucket containers (MichaelHashSet over ordered lists,
  the striped sets over their buckets between two resizes) inherit linearizability from the bucket
  container: see `Spec.hashed_map_linearizable` in `Base/LocalityMap.lean`.
-/
import CdsVerif.Base.Lin
namespace CdsVerif.Lin

variable {σ Op Ret : Type}

/-- The composite object: component `i` is in state `s i`; an operation acts on component `route op` only. -/
def prodSpec (spec : Spec σ Op Ret) (route : Op → Nat) (init : Nat → σ) : Spec (Nat → σ) Op Ret where
  init := init
  next s op r := (spec.next (s (route op)) op r).map (fun s' => fun i => if i = route op then s' else s i)

/-- operations routed to component `i` -/
def sub (route : Op → Nat) (i : Nat) (ops : List (OpRec Op Ret)) : List (OpRec Op Ret) :=
  ops.filter (fun o => route o.op == i)

theorem exists_min_inv : ∀ (l : List (OpRec Op Ret)), l ≠ [] → ∃ m ∈ l, ∀ x ∈ l, m.inv ≤ x.inv
  | [], h => absurd rfl h
  | [a], _ => ⟨a, List.mem_cons_self, by intro x hx; simp at hx; subst hx; exact Nat.le_refl _⟩
  | a :: b :: t, _ => by
    obtain ⟨m, hm, hmin⟩ := exists_min_inv (b :: t) (by simp)
    by_cases h : a.inv ≤ m.inv
    · refine ⟨a, List.mem_cons_self, ?_⟩
      intro x hx
      rcases List.mem_cons.mp hx with rfl | hx
      · exact Nat.le_refl _
      · exact Nat.le_trans h (hmin x hx)
    · refine ⟨m, List.mem_cons_of_mem _ hm, ?_⟩
      intro x hx
      rcases List.mem_cons.mp hx with rfl | hx
      · omega
      · exact hmin x hx

variable [DecidableEq Op] [DecidableEq Ret]

/-- Locality, with the per-component linearizations given as a function. -/
theorem locality_aux (spec : Spec σ Op Ret) (route : Op → Nat) :
    ∀ (n : Nat) (ops : List (OpRec Op Ret)) (s : Nat → σ) (perm : Nat → List (OpRec Op Ret)),
      ops.length = n → (∀ o ∈ ops, o.inv ≤ o.res) →
      (∀ i, (perm i).Perm (sub route i ops) ∧ RespectsRT (perm i) ∧ Legal spec (s i) (perm i)) →
      LinearizableFrom (prodSpec spec route s) s ops := by
  intro n
  induction n with
  | zero =>
    intro ops s perm hlen _ _
    have : ops = [] := List.eq_nil_of_length_eq_zero hlen
    subst this
    exact ⟨[], List.Perm.refl _, List.Pairwise.nil, trivial⟩
  | succ n ih =>
    intro ops s perm hlen hwf h
    -- the first operations of the component linearizations
    let heads := ops.filterMap (fun o => (perm (route o.op)).head?)
    have hne_of : ∀ o ∈ ops, perm (route o.op) ≠ [] := by
      intro o ho hnil
      have hp := (h (route o.op)).1
      rw [hnil] at hp
      have : o ∈ sub route (route o.op) ops := by
        simp [sub, List.mem_filter, ho]
      have := hp.symm.mem_iff.mp this
      simp at this
    have hops : ops ≠ [] := by intro h0; rw [h0] at hlen; simp at hlen
    have hheads : heads ≠ [] := by
      obtain ⟨o, ho⟩ := List.exists_mem_of_ne_nil _ hops
      have hne := hne_of o ho
      cases hp : perm (route o.op) with
      | nil => exact absurd hp hne
      | cons a t =>
        intro h0
        have : a ∈ heads := by
          simp only [heads, List.mem_filterMap]
          exact ⟨o, ho, by simp [hp]⟩
        rw [h0] at this
        simp at this
    obtain ⟨m, hm, hmin⟩ := exists_min_inv heads hheads
    -- m is the head of the linearization of its own component
    obtain ⟨o0, ho0, hhead⟩ : ∃ o ∈ ops, (perm (route o.op)).head? = some m := by
      simpa [heads, List.mem_filterMap] using hm
    obtain ⟨tl, hperm0⟩ : ∃ tl, perm (route o0.op) = m :: tl := by
      cases hp : perm (route o0.op) with
      | nil => simp [hp] at hhead
      | cons a t => simp [hp] at hhead; exact ⟨t, by rw [hhead]⟩
    have hm_sub : m ∈ sub route (route o0.op) ops :=
      (h (route o0.op)).1.mem_iff.mp (by rw [hperm0]; exact List.mem_cons_self)
    have hm_ops : m ∈ ops := (List.mem_filter.mp hm_sub).1
    have hroute : route m.op = route o0.op := by
      have := (List.mem_filter.mp hm_sub).2
      simpa using this
    let i0 := route m.op
    have hperm_i0 : perm i0 = m :: tl := by simp only [i0]; rw [hroute]; exact hperm0
    -- m is minimal in real time among all operations
    have hminimal : ∀ p ∈ ops, ¬ p.res < m.inv := by
      intro p hp
      have hne := hne_of p hp
      cases hpp : perm (route p.op) with
      | nil => exact absurd hpp hne
      | cons a t =>
        have ha : a ∈ heads := by
          simp only [heads, List.mem_filterMap]
          exact ⟨p, hp, by simp [hpp]⟩
        have h1 : m.inv ≤ a.inv := hmin a ha
        have hpin : p ∈ perm (route p.op) :=
          (h (route p.op)).1.symm.mem_iff.mp (by simp [sub, List.mem_filter, hp])
        rw [hpp] at hpin
        have hrt := (h (route p.op)).2.1
        rw [hpp] at hrt
        have hrt' := List.pairwise_cons.mp hrt
        rcases List.mem_cons.mp hpin with rfl | hpt
        · have := hwf p hp; omega
        · have := hrt'.1 p hpt; omega
    -- the step of the composite object
    have hleg0 := (h i0).2.2
    rw [hperm_i0] at hleg0
    obtain ⟨s1, hnext, hlegtl⟩ := hleg0
    let s' : Nat → σ := fun i => if i = i0 then s1 else s i
    let perm' : Nat → List (OpRec Op Ret) := fun i => if i = i0 then tl else perm i
    have hsplit : ops.Perm (m :: ops.erase m) := List.perm_cons_erase hm_ops
    have hrec : LinearizableFrom (prodSpec spec route s') s' (ops.erase m) := by
      apply ih (ops.erase m) s' perm'
      · rw [List.length_erase_of_mem hm_ops, hlen]; rfl
      · intro o ho; exact hwf o (List.mem_of_mem_erase ho)
      · intro i
        have hfilt : (sub route i ops).Perm (sub route i (m :: ops.erase m)) := hsplit.filter _
        by_cases hi : i = i0
        · subst hi
          have hsub : sub route i0 (m :: ops.erase m) = m :: sub route i0 (ops.erase m) := by
            simp [sub, List.filter_cons, i0]
          have hp1 : (m :: tl).Perm (m :: sub route i0 (ops.erase m)) := by
            rw [← hperm_i0, ← hsub]; exact (h i0).1.trans hfilt
          have hrt := (h i0).2.1
          rw [hperm_i0] at hrt
          refine ⟨?_, ?_, ?_⟩
          · simp only [perm', if_true]; exact List.Perm.cons_inv hp1
          · simp only [perm', if_true]; exact (List.pairwise_cons.mp hrt).2
          · simp only [perm', s', if_true]; exact hlegtl
        · have hsub : sub route i (m :: ops.erase m) = sub route i (ops.erase m) := by
            have : (route m.op == i) = false := by
              simp only [beq_eq_false_iff_ne]; intro hh; exact hi hh.symm
            simp [sub, List.filter_cons, this]
          refine ⟨?_, ?_, ?_⟩
          · simp only [perm', if_neg hi]; rw [← hsub]; exact (h i).1.trans hfilt
          · simp only [perm', if_neg hi]; exact (h i).2.1
          · simp only [perm', s', if_neg hi]; exact (h i).2.2
    obtain ⟨permR, hpR, hrtR, hlegR⟩ := hrec
    refine ⟨m :: permR, ?_, ?_, ?_⟩
    · exact (List.Perm.cons m hpR).trans hsplit.symm
    · refine List.Pairwise.cons ?_ hrtR
      intro b hb
      exact hminimal b (List.mem_of_mem_erase (hpR.mem_iff.mp hb))
    · refine ⟨s', ?_, ?_⟩
      · show (prodSpec spec route s).next s m.op m.ret = some s'
        have hnext' : spec.next (s (route m.op)) m.op m.ret = some s1 := hnext
        simp only [prodSpec, hnext', Option.map_some]
        rfl
      · -- legality does not depend on the `init` field
        have : ∀ (l : List (OpRec Op Ret)) (t : Nat → σ),
            Legal (prodSpec spec route s') t l → Legal (prodSpec spec route s) t l := by
          intro l
          induction l with
          | nil => intro _ _; trivial
          | cons a l ihl =>
            intro t ⟨t', hn, hl⟩
            exact ⟨t', hn, ihl t' hl⟩
        exact this permR s' hlegR

/-- **Locality.**  If, for every component, the operations routed to it form a linearizable history of the
    component specification (from that component's state), the whole history is linearizable for the
    composite object. -/
theorem locality (spec : Spec σ Op Ret) (route : Op → Nat) (s : Nat → σ) (ops : List (OpRec Op Ret))
    (hwf : ∀ o ∈ ops, o.inv ≤ o.res)
    (h : ∀ i, LinearizableFrom spec (s i) (sub route i ops)) :
    LinearizableFrom (prodSpec spec route s) s ops := by
  have hch : ∀ i, ∃ p : List (OpRec Op Ret),
      p.Perm (sub route i ops) ∧ RespectsRT p ∧ Legal spec (s i) p := h
  obtain ⟨perm, hperm⟩ := Classical.axiomOfChoice hch
  exact locality_aux spec route ops.length ops s perm rfl hwf hperm

/-- Converse direction (projection): a linearization of the composite history restricts to every component. -/
theorem locality_proj (spec : Spec σ Op Ret) (route : Op → Nat) (init : Nat → σ) :
    ∀ (perm : List (OpRec Op Ret)) (s : Nat → σ) (i : Nat),
      Legal (prodSpec spec route init) s perm → Legal spec (s i) (sub route i perm) := by
  intro perm
  induction perm with
  | nil => intro _ _ _; trivial
  | cons a l ih =>
    intro s i ⟨s', hn, hl⟩
    simp only [prodSpec] at hn
    cases hs : spec.next (s (route a.op)) a.op a.ret with
    | none => simp [hs] at hn
    | some s1 =>
      simp only [hs, Option.map_some, Option.some.injEq] at hn
      subst hn
      by_cases hi : route a.op = i
      · subst hi
        have : sub route (route a.op) (a :: l) = a :: sub route (route a.op) l := by
          simp [sub, List.filter_cons]
        rw [this]
        refine ⟨s1, hs, ?_⟩
        have := ih (fun j => if j = route a.op then s1 else s j) (route a.op) hl
        simpa using this
      · have hb : (route a.op == i) = false := by simpa using hi
        have : sub route i (a :: l) = sub route i l := by simp [sub, List.filter_cons, hb]
        rw [this]
        have := ih (fun j => if j = route a.op then s1 else s j) i hl
        have hne : ¬ i = route a.op := fun h => hi h.symm
        simpa [hne] using this

end CdsVerif.Lin
